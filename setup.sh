#!/bin/sh
# Offline build of the framework's few compiled helpers. Safe to run repeatedly.
set -u
cd "$(dirname "$0")"
mkdir -p build/ref
ok=0
if command -v javac >/dev/null 2>&1; then
  javac -d build/ref ref/Murmur2Ref.java >build/ref/javac.log 2>&1 && ok=1 || echo "javac failed (see build/ref/javac.log); C18 falls back to the C / Python references"
fi
if command -v clang >/dev/null 2>&1; then
  clang -O2 -Wall -o build/ref/murmur2_c ref/murmur2.c >build/ref/cc.log 2>&1 && ok=1 || echo "clang failed"
elif command -v gcc >/dev/null 2>&1; then
  gcc -O2 -Wall -o build/ref/murmur2_c ref/murmur2.c >build/ref/cc.log 2>&1 && ok=1 || echo "gcc failed"
fi
/venv/bin/python -m afkverif.refproto || exit 1
exit 0

// Reference: transcription of org.apache.kafka.common.utils.Utils.murmur2 and
// Utils.toPositive as used by the Java client's DefaultPartitioner, executed
// with Java's own 32-bit int semantics.
// stdin : one line per query  "<hex key> <numPartitions>"   (hex may be "-" for the empty key)
// stdout: "<murmur2 as signed int> <toPositive(h) % numPartitions>"
import java.io.*;

public class Murmur2Ref {
    public static int murmur2(final byte[] data) {
        int length = data.length;
        int seed = 0x9747b28c;
        final int m = 0x5bd1e995;
        final int r = 24;
        int h = seed ^ length;
        int length4 = length / 4;
        for (int i = 0; i < length4; i++) {
            final int i4 = i * 4;
            int k = (data[i4 + 0] & 0xff) + ((data[i4 + 1] & 0xff) << 8)
                  + ((data[i4 + 2] & 0xff) << 16) + ((data[i4 + 3] & 0xff) << 24);
            k *= m;
            k ^= k >>> r;
            k *= m;
            h *= m;
            h ^= k;
        }
        switch (length % 4) {
            case 3:
                h ^= (data[(length & ~3) + 2] & 0xff) << 16;
            case 2:
                h ^= (data[(length & ~3) + 1] & 0xff) << 8;
            case 1:
                h ^= data[length & ~3] & 0xff;
                h *= m;
        }
        h ^= h >>> 13;
        h *= m;
        h ^= h >>> 15;
        return h;
    }

    public static int toPositive(int number) {
        return number & 0x7fffffff;
    }

    static byte[] unhex(String s) {
        if (s.equals("-")) return new byte[0];
        int n = s.length() / 2;
        byte[] out = new byte[n];
        for (int i = 0; i < n; i++) {
            out[i] = (byte) ((Character.digit(s.charAt(2 * i), 16) << 4) | Character.digit(s.charAt(2 * i + 1), 16));
        }
        return out;
    }

    public static void main(String[] args) throws IOException {
        BufferedReader in = new BufferedReader(new InputStreamReader(System.in, "US-ASCII"), 1 << 16);
        PrintWriter out = new PrintWriter(new BufferedWriter(new OutputStreamWriter(System.out, "US-ASCII"), 1 << 16));
        String line;
        while ((line = in.readLine()) != null) {
            if (line.isEmpty()) continue;
            int sp = line.indexOf(' ');
            byte[] key = unhex(line.substring(0, sp));
            int n = Integer.parseInt(line.substring(sp + 1));
            int h = murmur2(key);
            out.print(h);
            out.print(' ');
            out.println(toPositive(h) % n);
        }
        out.flush();
    }
}

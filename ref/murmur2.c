/* Reference: Austin Appleby's MurmurHash2 (public domain), little-endian
 * byte-wise reads, seed 0x9747b28c as the Kafka clients use.
 * stdin : "<hex key> <numPartitions>" per line ("-" = empty key)
 * stdout: "<hash as signed 32-bit> <(h & 0x7fffffff) % n>"
 */
#include <stdint.h>
#include <stdio.h>
#include <stdlib.h>
#include <string.h>

static uint32_t MurmurHash2(const unsigned char *data, size_t len, uint32_t seed) {
    const uint32_t m = 0x5bd1e995;
    const int r = 24;
    uint32_t h = seed ^ (uint32_t)len;
    while (len >= 4) {
        uint32_t k = (uint32_t)data[0] | ((uint32_t)data[1] << 8) | ((uint32_t)data[2] << 16) | ((uint32_t)data[3] << 24);
        k *= m;
        k ^= k >> r;
        k *= m;
        h *= m;
        h ^= k;
        data += 4;
        len -= 4;
    }
    switch (len) {
    case 3: h ^= (uint32_t)data[2] << 16; /* fall through */
    case 2: h ^= (uint32_t)data[1] << 8;  /* fall through */
    case 1: h ^= data[0];
            h *= m;
    }
    h ^= h >> 13;
    h *= m;
    h ^= h >> 15;
    return h;
}

static int hexv(int c) {
    if (c >= '0' && c <= '9') return c - '0';
    if (c >= 'a' && c <= 'f') return c - 'a' + 10;
    if (c >= 'A' && c <= 'F') return c - 'A' + 10;
    return -1;
}

int main(void) {
    size_t cap = 1 << 20;
    char *line = malloc(cap);
    unsigned char *buf = malloc(cap);
    ssize_t n;
    while ((n = getline(&line, &cap, stdin)) > 0) {
        buf = realloc(buf, cap);
        char *sp = strchr(line, ' ');
        if (!sp) continue;
        size_t len = 0;
        if (line[0] != '-') {
            for (char *p = line; p + 1 < sp + 1 && p < sp; p += 2) {
                buf[len++] = (unsigned char)((hexv(p[0]) << 4) | hexv(p[1]));
            }
        }
        long parts = strtol(sp + 1, NULL, 10);
        uint32_t h = MurmurHash2(buf, len, 0x9747b28cu);
        printf("%d %ld\n", (int32_t)h, (long)((h & 0x7fffffffu) % (uint32_t)parts));
    }
    return 0;
}

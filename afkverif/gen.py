"""Seeded generators of boundary-heavy protocol values (plain `random`, no shrinking)."""

INT16 = (-32768, -1, 0, 1, 2, 255, 256, 32767)
INT32 = (-2 ** 31, -2, -1, 0, 1, 2, 65535, 65536, 2 ** 31 - 1)
INT64 = (-2 ** 63, -2 ** 32, -2, -1, 0, 1, 2 ** 31, 2 ** 32, 2 ** 63 - 1)
TOPIC_CHARS = "abcdefghijklmnopqrstuvwxyzABCDEFGHIJKLMNOPQRSTUVWXYZ0123456789._-"
TEXTS = ["", "a", "group", "grp-1", "g.2_x", "é", "группа", "组", "🐍", "x" * 40, "member-1-uuid", "naïve"]
ASCII_TEXTS = ["a", "group", "grp-1", "g.2_x", "x" * 40, "member-1-uuid", "consumer", "range", "roundrobin", "0"]


def g_int16(rng):
    return rng.choice(INT16) if rng.random() < 0.4 else rng.randint(-32768, 32767)


def g_int32(rng):
    return rng.choice(INT32) if rng.random() < 0.4 else rng.randint(-2 ** 31, 2 ** 31 - 1)


def g_int64(rng):
    return rng.choice(INT64) if rng.random() < 0.4 else rng.randint(-2 ** 63, 2 ** 63 - 1)


def g_nonneg32(rng):
    return rng.choice((0, 1, 2, 1000, 2 ** 31 - 1)) if rng.random() < 0.4 else rng.randint(0, 2 ** 31 - 1)


def g_offset(rng):
    return rng.choice((0, 1, 2, 2 ** 31, 2 ** 40, 2 ** 63 - 1)) if rng.random() < 0.3 else rng.randint(0, 2 ** 48)


def g_topic(rng):
    r = rng.random()
    if r < 0.05:
        return "t" * 249
    if r < 0.1:
        return rng.choice(TOPIC_CHARS)
    return "".join(rng.choice(TOPIC_CHARS) for _ in range(rng.randint(1, 20)))


def g_topics(rng, lo=0, hi=4):
    n = rng.randint(lo, hi)
    out = []
    while len(out) < n:
        t = g_topic(rng)
        if t not in out:
            out.append(t)
    return out


def g_partitions(rng, lo=0, hi=5):
    n = rng.randint(lo, hi)
    pool = [0, 1, 2, 3, 7, 100, 2 ** 31 - 1]
    out = []
    while len(out) < n:
        p = rng.choice(pool) if rng.random() < 0.6 else rng.randint(0, 2 ** 31 - 1)
        if p not in out:
            out.append(p)
    return out


def g_text(rng, ascii_only=False):
    if ascii_only:
        return rng.choice(ASCII_TEXTS)
    return rng.choice(TEXTS)


def g_bytes(rng, nullable=True, big=False):
    r = rng.random()
    if nullable and r < 0.15:
        return None
    if r < 0.3:
        return b""
    if big and r < 0.36:
        n = rng.choice((1000, 4096, 70000))
        return rng.getrandbits(8 * n).to_bytes(n, "big")
    n = rng.randint(1, 24)
    if r < 0.5:
        return bytes(rng.choice((0, 0xFF, 0x80, 0x7F, 10)) for _ in range(n))
    return rng.getrandbits(8 * n).to_bytes(n, "big")


def g_client_id(rng):
    return rng.choice((b"", b"afkak-client", b"c", "клиент".encode("utf-8"), b"x" * 300, b"a b"))


def g_corr(rng):
    return rng.choice((0, 1, 2, 2 ** 31 - 1)) if rng.random() < 0.4 else rng.randint(0, 2 ** 31 - 1)


def g_error(rng):
    r = rng.random()
    if r < 0.35:
        return 0
    if r < 0.9:
        return rng.randint(-1, 72)
    return rng.choice((73, 87, 100, 1000, 32767, -2, -32768))


def g_host(rng):
    return rng.choice(("localhost", "kafka-1.example.com", "10.0.0.1", "b", "h" * 60, "::1", "broker_2"))

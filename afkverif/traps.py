"""Sanitizer stand-ins for a single-threaded Twisted program.

* unhandled-Failure trap: a Deferred garbage-collected with an unhandled
  failure (Twisted logs "Unhandled error in Deferred") -- the analogue of an
  ignored error;
* exceptions escaping a reactor event are collected by SimClock.errors
  (AlreadyCalledError among them: a Deferred fired twice);
* second-firing trap: every attempt to fire a Deferred that has already fired is recorded where it is made
  (Deferred._startRunCallbacks is wrapped for the duration), also when the AlreadyCalledError it raises is
  swallowed further up by an errback chain and never reaches the reactor;
* afkak's own ERROR-level log records are kept as diagnostics (never a
  verdict by themselves).
"""
import gc
import logging

from twisted.logger import LogLevel, globalLogPublisher


class _ListHandler(logging.Handler):
    def __init__(self, sink):
        logging.Handler.__init__(self, level=logging.ERROR)
        self.sink = sink

    def emit(self, record):
        try:
            self.sink.append((record.name, record.levelname, record.getMessage()[:300]))
        except Exception:
            pass


class Traps(object):
    def __init__(self):
        self.unhandled = []  # (exception type name, short text)
        self.errors_logged = []
        self.second_firings = []  # (innermost afkak frame "file:function", brief stack, id of the Deferred)
        self._handler = _ListHandler(self.errors_logged)
        self._orig_start = None

    def _observe(self, event):
        f = event.get("log_failure")
        if f is None:
            return
        lvl = event.get("log_level")
        if lvl is not None and lvl < LogLevel.error:
            return
        fmt = event.get("log_format") or ""
        if "Unhandled" in fmt or event.get("debugInfo") is not None or "isError" in event:
            try:
                tb = f.getBriefTraceback()[-600:]
            except Exception:
                tb = ""
            self.unhandled.append((f.type.__name__ if f.type else "?", str(f.value)[:200], tb))

    def _patch(self):
        import sys
        from twisted.internet.defer import Deferred
        traps = self
        orig = Deferred._startRunCallbacks
        self._orig_start = orig

        def _startRunCallbacks(d, result):
            if d.called:
                try:
                    fr = sys._getframe(1)
                    stack = []
                    where = None
                    while fr is not None and len(stack) < 12:
                        fn = fr.f_code.co_filename
                        if "/afkak/" in fn and "/afkverif/" not in fn:
                            tag = "%s:%s" % (fn.rsplit("/", 1)[-1], fr.f_code.co_name)
                            stack.append(tag)
                            if where is None:
                                where = tag
                        fr = fr.f_back
                    if where is not None:
                        traps.second_firings.append((where, " < ".join(stack), id(d)))
                except Exception:
                    pass
            return orig(d, result)
        Deferred._startRunCallbacks = _startRunCallbacks

    def _unpatch(self):
        if self._orig_start is not None:
            from twisted.internet.defer import Deferred
            Deferred._startRunCallbacks = self._orig_start
            self._orig_start = None

    def __enter__(self):
        gc.collect()
        self._patch()
        globalLogPublisher.addObserver(self._observe)
        logging.getLogger("afkak").addHandler(self._handler)
        return self

    def flush(self):
        gc.collect()

    def __exit__(self, *exc):
        self._unpatch()
        gc.collect()
        globalLogPublisher.removeObserver(self._observe)
        logging.getLogger("afkak").removeHandler(self._handler)
        return False

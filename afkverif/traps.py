"""Sanitizer stand-ins for a single-threaded Twisted program.

* unhandled-Failure trap: a Deferred garbage-collected with an unhandled
  failure (Twisted logs "Unhandled error in Deferred") -- the analogue of an
  ignored error;
* exceptions escaping a reactor event are collected by SimClock.errors
  (AlreadyCalledError among them: a Deferred fired twice);
* afkak's own ERROR-level log records are kept as diagnostics (never a
  verdict by themselves).
"""
import gc
import logging

from twisted.logger import LogLevel, globalLogPublisher


class _ListHandler(logging.Handler):
    def __init__(self, sink):
        logging.Handler.__init__(self, level=logging.ERROR)
        self.sink = sink

    def emit(self, record):
        try:
            self.sink.append((record.name, record.levelname, record.getMessage()[:300]))
        except Exception:
            pass


class Traps(object):
    def __init__(self):
        self.unhandled = []  # (exception type name, short text)
        self.errors_logged = []
        self._handler = _ListHandler(self.errors_logged)

    def _observe(self, event):
        f = event.get("log_failure")
        if f is None:
            return
        lvl = event.get("log_level")
        if lvl is not None and lvl < LogLevel.error:
            return
        fmt = event.get("log_format") or ""
        if "Unhandled" in fmt or event.get("debugInfo") is not None or "isError" in event:
            try:
                tb = f.getBriefTraceback()[-600:]
            except Exception:
                tb = ""
            self.unhandled.append((f.type.__name__ if f.type else "?", str(f.value)[:200], tb))

    def __enter__(self):
        gc.collect()
        globalLogPublisher.addObserver(self._observe)
        logging.getLogger("afkak").addHandler(self._handler)
        return self

    def flush(self):
        gc.collect()

    def __exit__(self, *exc):
        gc.collect()
        globalLogPublisher.removeObserver(self._observe)
        logging.getLogger("afkak").removeHandler(self._handler)
        return False

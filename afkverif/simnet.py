"""Virtual time and virtual network for driving the real afkak stack.

SimClock  -- task.Clock that can run exactly one delayed call at a time, so
             monitors can look at the world after *every* reactor event.
SimNet    -- endpoint factory (reactor, host, port) -> IStreamClientEndpoint
             whose connections are in-memory byte pipes with controllable
             latency, chunking, refusal, black-holing and cuts.  Everything
             that happens is logged: connection attempts, bytes written by the
             client, bytes delivered to it, closes.
"""
import struct
import traceback

from twisted.internet import task
from twisted.internet.address import IPv4Address
from twisted.internet.defer import Deferred
from twisted.internet.error import ConnectionDone, ConnectionLost, ConnectionRefusedError
from twisted.python.failure import Failure


class StepCapExceeded(Exception):
    pass


def _label(call):
    f = call.func
    lab = getattr(f, "sim_label", None)
    if lab is not None:
        return lab
    q = getattr(f, "__qualname__", None)
    if q is None:
        q = type(f).__name__
    return q


class SimClock(task.Clock):
    """Clock with single-event stepping, an event trace and a step counter."""

    def __init__(self):
        task.Clock.__init__(self)
        self.steps = 0
        self.trace = []  # labels of executed events, in order
        self.trace_limit = 20000
        self.hooks = []  # called after every event (quiescent points)
        self.pre_hooks = []  # called with the label just before an event runs
        self.errors = []  # exceptions that escaped a reactor event: (time, label, type, traceback)

    def next_time(self):
        if not self.calls:
            return None
        self._sortCalls()
        return self.calls[0].getTime()

    def step(self):
        """Run exactly the earliest pending call (ties: scheduling order)."""
        self._sortCalls()
        call = self.calls.pop(0)
        t = call.getTime()
        if t > self.rightNow:
            self.rightNow = t
        call.called = 1
        lab = _label(call)
        if len(self.trace) < self.trace_limit:
            self.trace.append(lab)
        for h in self.pre_hooks:
            h(lab)
        self.steps += 1
        try:
            call.func(*call.args, **call.kw)
        except StepCapExceeded:
            raise
        except Exception as e:  # a real reactor logs and carries on; we record
            self.errors.append((self.rightNow, lab, type(e).__name__, traceback.format_exc(limit=12)))
        for h in self.hooks:
            h()

    def run(self, until=None, max_steps=200000, stop=None):
        """Run events one by one until none is left, virtual time would pass
        `until`, or stop() returns true.  Returns the reason."""
        start = self.steps
        while True:
            if stop is not None and stop():
                return "stop"
            nt = self.next_time()
            if nt is None:
                if until is not None and until > self.rightNow:
                    self.rightNow = until
                return "idle"
            if until is not None and nt > until:
                if until > self.rightNow:
                    self.rightNow = until
                return "until"
            if self.steps - start >= max_steps:
                raise StepCapExceeded("more than %d events" % max_steps)
            self.step()

    def labelled(self, delay, label, fn, *a, **kw):
        def call():
            return fn(*a, **kw)
        call.sim_label = label
        return self.callLater(delay, call)


def _noop():
    return None


class Chunker(object):
    """Decides how a server->client byte string is cut for delivery."""

    MODES = ("whole", "bytes", "random", "coalesce", "prefix_split")

    def __init__(self, rng, mode="whole"):
        self.rng = rng
        self.mode = mode

    def cut(self, data):
        m = self.mode
        if m == "mixed":
            m = self.rng.choice(self.MODES)
        if m in ("whole", "coalesce") or len(data) <= 1:
            return [data]
        if m == "bytes":
            if len(data) > 512:  # keep event counts sane on big frames
                head = [data[i:i + 1] for i in range(8)]
                return head + [data[8:]]
            return [data[i:i + 1] for i in range(len(data))]
        if m == "prefix_split":
            k = self.rng.randint(1, min(3, len(data) - 1))
            return [data[:k], data[k:]]
        n = self.rng.randint(1, min(6, len(data) - 1))
        cuts = sorted(set(self.rng.randint(1, len(data) - 1) for _ in range(n)))
        out = []
        prev = 0
        for c in cuts + [len(data)]:
            out.append(data[prev:c])
            prev = c
        return out


class ClientTransport(object):
    """What afkak's protocol sees as its transport."""

    disconnecting = False
    disconnected = False

    def __init__(self, conn):
        self.conn = conn

    def write(self, data):
        self.conn._client_write(bytes(data))

    def writeSequence(self, seq):
        self.write(b"".join(seq))

    def loseConnection(self, connDone=None):
        self.conn._client_lose(abort=False)

    def abortConnection(self):
        self.conn._client_lose(abort=True)

    def getPeer(self):
        return IPv4Address("TCP", self.conn.host, self.conn.port)

    def getHost(self):
        return IPv4Address("TCP", "client", 40000 + self.conn.id)

    def registerProducer(self, producer, streaming):
        pass

    def unregisterProducer(self):
        pass

    def pauseProducing(self):
        pass

    def resumeProducing(self):
        pass

    def stopProducing(self):
        pass

    def setTcpNoDelay(self, enabled):
        pass

    def setTcpKeepAlive(self, enabled):
        pass

    def getHandle(self):
        return None


class SimConn(object):
    """One established connection."""

    def __init__(self, net, cid, host, port, owner):
        self.net = net
        self.clock = net.clock
        self.id = cid
        self.host = host
        self.port = port
        self.owner = owner  # tag of whoever dialled (net.current_owner at connect time)
        self.transport = ClientTransport(self)
        self.client_proto = None
        self.server = None  # server side handler: data_received(conn, bytes), connection_closed(conn)
        self.opened = self.clock.seconds()
        self.c2s = []  # (time, bytes) written by the client
        self.c2s_bytes = 0
        self.s2c = []  # (time, bytes) delivered to the client
        self.s2c_sent = 0  # bytes the server asked to send
        self.client_closing = False  # client called loseConnection/abortConnection
        self.client_lost = False  # connectionLost delivered to the client protocol
        self.server_gone = False  # server side closed / cut: client->server data is discarded
        self.closed_at = None
        self._c2s_last = 0.0
        self._s2c_last = 0.0
        self._s2c_fifo = []
        self._c2s_fifo = []
        self._pending = bytearray()
        self._flush_dc = None
        self.cut_c2s_at = None  # sever when the client's written byte count reaches this
        self.cut_s2c_at = None  # sever when the server's sent byte count reaches this
        self.writes_after_close = 0
        self.chunker = net.make_chunker()

    # -- client side -------------------------------------------------------
    def _client_write(self, data):
        now = self.clock.seconds()
        if self.client_aborted or self.client_lost:
            self.writes_after_close += 1
            self.net.log.append(("write_after_close", now, self.id, len(data)))
            return
        # Twisted's TCP transport still sends what is written after loseConnection() in the same
        # reactor turn (the connection closes once the write buffer has drained), so do we.
        self.c2s.append((now, data))
        self.net.log.append(("c2s", now, self.id, data))
        start = self.c2s_bytes
        self.c2s_bytes += len(data)
        for h in self.net.write_hooks:
            h(self, data)
        if self.server_gone or self._c2s_cut:
            return
        if self.cut_c2s_at is not None and self.c2s_bytes >= self.cut_c2s_at:
            keep = max(0, self.cut_c2s_at - start)
            self._schedule_c2s(data[:keep])
            self._c2s_cut = True
            at = max(now + self.net.latency(), self._c2s_last)
            self._c2s_last = at
            self.clock.labelled(at - now, "net.cut_c2s", self.sever, "cut_c2s")
            return
        self._schedule_c2s(data)

    def _schedule_c2s(self, data):
        if not data:
            return
        at = max(self.clock.seconds() + self.net.latency(), self._c2s_last)
        self._c2s_last = at
        self._c2s_fifo.append(data)
        self.clock.labelled(at - self.clock.seconds(), "net.c2s", self._deliver_next_c2s)

    def _deliver_next_c2s(self):
        if self._c2s_fifo:
            self._deliver_c2s(self._c2s_fifo.pop(0))

    def _deliver_c2s(self, data):
        if self._c2s_dead:
            return
        if self.server is not None:
            self.server.data_received(self, data)

    _c2s_dead = False
    client_aborted = False
    _c2s_cut = False

    def _client_lose(self, abort):
        if self.client_closing or self.client_lost:
            return
        self.client_closing = True
        self.client_aborted = abort
        self.transport.disconnecting = True
        now = self.clock.seconds()
        self.net.log.append(("client_close", now, self.id, abort))
        reason = ConnectionLost("aborted") if abort else ConnectionDone()
        # a TCP transport stops reading at loseConnection() and reports the loss on the next turn; a TLS-like one
        # (net.linger_reads = seconds) keeps delivering what the peer sends until the closing handshake is through
        linger = 0 if abort else (self.net.linger_reads or 0)
        self.clock.labelled(linger, "net.client_conn_lost", self._client_conn_lost, reason)

    def _server_eof(self):
        if self.server_gone:
            return
        self.server_gone = True
        if self.server is not None:
            self.server.connection_closed(self)

    def _client_conn_lost(self, reason):
        if self.client_lost:
            return
        self.client_lost = True
        self.transport.disconnected = True
        self.closed_at = self.clock.seconds()
        self.net.log.append(("conn_lost", self.closed_at, self.id, type(reason).__name__))
        self.net.open_conns.discard(self)
        if not self.server_gone:
            # the peer sees EOF after everything the client managed to write
            now = self.clock.seconds()
            at = max(now + self.net.latency(), self._c2s_last)
            self._c2s_last = at
            self.clock.labelled(at - now, "net.server_eof", self._server_eof)
        if self.client_proto is not None:
            self.client_proto.connectionLost(Failure(reason))

    # -- server side -------------------------------------------------------
    def server_send(self, data, label="net.s2c", ghost=False):
        """Queue bytes from the server to the client.  ghost=True consumes the
        same random draws, schedules the same events and honours the same cut
        points, but delivers nothing (used by differential re-runs)."""
        if self.server_gone or not data:
            return
        start = self.s2c_sent
        self.s2c_sent += len(data)
        cut = False
        if self.cut_s2c_at is not None and self.s2c_sent >= self.cut_s2c_at:
            data = data[:max(0, self.cut_s2c_at - start)]
            cut = True
        if data:
            if self.chunker.mode == "coalesce":
                if not ghost:
                    self._pending.extend(data)
                if self._flush_dc is None:
                    at = max(self.clock.seconds() + self.net.latency(), self._s2c_last)
                    self._s2c_last = at
                    self._flush_dc = self.clock.labelled(at - self.clock.seconds(), label, self._flush)
            else:
                for chunk in self.chunker.cut(data):
                    at = max(self.clock.seconds() + self.net.latency(), self._s2c_last)
                    self._s2c_last = at
                    # a byte stream keeps its order: each scheduled event hands over the OLDEST chunk still queued
                    # (two chunks due at the same instant but scheduled from different "now"s can end up a rounding
                    # error apart and fire in the wrong order)
                    self._s2c_fifo.append(None if ghost else chunk)
                    self.clock.labelled(at - self.clock.seconds(), label, self._deliver_next_s2c)
        if cut:
            self.sever("cut_s2c")

    def _deliver_next_s2c(self):
        if not self._s2c_fifo:
            return
        chunk = self._s2c_fifo.pop(0)
        if chunk is not None:
            self._deliver_s2c(chunk)

    def _flush(self):
        self._flush_dc = None
        data, self._pending = bytes(self._pending), bytearray()
        if data:
            self._deliver_s2c(data)

    def _deliver_s2c(self, data):
        if self.client_lost or (self.client_closing and (self.client_aborted or not self.net.linger_reads)):
            return
        now = self.clock.seconds()
        self.s2c.append((now, data))
        self.net.log.append(("s2c", now, self.id, data))
        try:
            self.client_proto.dataReceived(data)
        except StepCapExceeded:
            raise
        except Exception as e:
            # what the real reactor does with an exception escaping dataReceived: log it and drop the connection
            # (twisted.internet.base: _doReadOrWrite -> _disconnectSelectable).  Recorded like any error escaping a
            # reactor event.
            import traceback as _tb
            self.clock.errors.append((now, "net.s2c.dataReceived", type(e).__name__, _tb.format_exc(limit=12)))
            self.net.log.append(("data_received_raised", now, self.id, type(e).__name__))
            self._client_conn_lost(e)

    def server_close(self, clean=True):
        """The server closes the connection after what it already sent."""
        if self.server_gone:
            return
        self.server_gone = True
        self._c2s_dead = True
        now = self.clock.seconds()
        self.net.log.append(("server_close", now, self.id, clean))
        at = max(now + self.net.latency(), self._s2c_last)
        self._s2c_last = at
        reason = ConnectionDone() if clean else ConnectionLost("reset by peer")
        self.clock.labelled(at - now, "net.server_closed", self._client_conn_lost, reason)
        if self.server is not None:
            self.server.connection_closed(self)

    def sever(self, why="sever"):
        """Abrupt loss: nothing further is delivered in either direction
        (bytes already scheduled towards the client before the cut still
        arrive, as on a real socket whose peer died after sending)."""
        self.server_close(clean=False)

    @property
    def is_open(self):
        return not self.client_lost


class SimEndpoint(object):
    def __init__(self, net, host, port):
        self.net = net
        self.host = host
        self.port = port

    def connect(self, factory):
        return self.net._connect(self.host, self.port, factory)


class Attempt(object):
    __slots__ = ("t", "host", "port", "outcome", "owner", "done_t", "conn", "cancelled", "factory")

    def __init__(self, t, host, port, owner):
        self.t = t
        self.host = host
        self.port = port
        self.owner = owner
        self.outcome = None
        self.done_t = None
        self.conn = None
        self.cancelled = False
        self.factory = None

    def as_tuple(self):
        return (self.t, self.host, self.port, self.outcome)


class SimNet(object):
    """Endpoint factory + registry of listeners."""

    def __init__(self, clock, rng, max_latency=0.0, chunk_mode="whole"):
        self.clock = clock
        self.rng = rng
        self.max_latency = max_latency
        self.chunk_mode = chunk_mode
        self.listeners = {}  # (host, port) -> object with on_connect(conn) -> handler, attribute `up`
        self.attempts = []
        self.pending_attempts = set()
        self.conns = []
        self.open_conns = set()
        self.log = []
        self.write_hooks = []
        self.connect_hooks = []
        self.linger_reads = None
        self.cancel_with_connecting_cancelled = True
        self.connect_policy = None  # fn(host, port, n_attempt) -> ("accept"|"refuse"|"blackhole", latency or None)
        self.owner = None  # tag put on attempts/connections made now

    def __call__(self, reactor, host, port):
        return SimEndpoint(self, host, port)

    def make_chunker(self):
        return Chunker(self.rng, self.chunk_mode)

    def latency(self):
        if self.max_latency <= 0:
            return 0.0
        return self.rng.random() * self.max_latency

    def listen(self, host, port, listener):
        self.listeners[(host, port)] = listener

    def unlisten(self, host, port):
        self.listeners.pop((host, port), None)

    def _decide(self, host, port):
        n = sum(1 for a in self.attempts if (a.host, a.port) == (host, port))
        if self.connect_policy is not None:
            r = self.connect_policy(host, port, n)
            if r is not None:
                return r
        lst = self.listeners.get((host, port))
        if lst is None or not getattr(lst, "up", True):
            return ("refuse", None)
        return ("accept", None)

    def _connect(self, host, port, factory):
        now = self.clock.seconds()
        att = Attempt(now, host, port, self.owner)
        att.factory = factory
        outcome, lat = self._decide(host, port)
        self.attempts.append(att)
        att_idx = len(self.attempts)
        self.log.append(("connect", now, host, port))
        for h in self.connect_hooks:
            h(att)
        if outcome == "refuse_sync":
            # an endpoint that fails before returning (name resolution error, exception in the endpoint factory):
            # the Deferred handed back has already fired
            att.outcome = "refused"
            att.done_t = now
            self.log.append(("refused", now, host, port))
            from twisted.internet.defer import fail
            return fail(Failure(ConnectionRefusedError("simnet: %s:%s refused at once" % (host, port))))
        if lat is None:
            lat = self.latency()
        dc_box = []

        def cancel(d):
            att.cancelled = True
            att.outcome = "cancelled"
            att.done_t = self.clock.seconds()
            self.pending_attempts.discard(att)
            self.log.append(("connect_cancelled", att.done_t, host, port))
            for dc in dc_box:
                if dc.active():
                    dc.cancel()
            # what a cancelled attempt fails with depends on how far the real endpoint had got: HostnameEndpoint fails
            # with ConnectingCancelledError once it is dialling, with the plain CancelledError while it still resolves
            # the name.  Alternate by attempt (no random draw).
            if self.cancel_with_connecting_cancelled and att_idx % 2 == 1:
                from twisted.internet.error import ConnectingCancelledError
                d.errback(Failure(ConnectingCancelledError(IPv4Address("TCP", host, port))))

        d = Deferred(cancel)
        self.pending_attempts.add(att)

        def finish():
            if att.cancelled:
                return
            self.pending_attempts.discard(att)
            att.done_t = self.clock.seconds()
            lst = self.listeners.get((host, port))
            if outcome == "accept" and lst is not None and getattr(lst, "up", True):
                att.outcome = "accepted"
                conn = SimConn(self, len(self.conns), host, port, att.owner)
                att.conn = conn
                self.conns.append(conn)
                self.open_conns.add(conn)
                self.log.append(("connected", att.done_t, conn.id, host, port))
                proto = factory.buildProtocol(conn.transport.getPeer())
                conn.client_proto = proto
                conn.server = lst.on_connect(conn)
                proto.makeConnection(conn.transport)
                d.callback(proto)
            else:
                att.outcome = "refused"
                self.log.append(("refused", att.done_t, host, port))
                d.errback(Failure(ConnectionRefusedError("simnet: %s:%s refused" % (host, port))))

        if outcome != "blackhole":
            dc_box.append(self.clock.labelled(lat, "net.connect_" + outcome, finish))
        else:
            att.outcome = "blackhole"
        return d

    # -- observation helpers ------------------------------------------------
    def bytes_written_after(self, t, strictly=False):
        n = 0
        for c in self.conns:
            for (wt, data) in c.c2s:
                if wt > t or (not strictly and wt >= t):
                    n += len(data)
        return n


class FrameBuffer(object):
    """Server-side reassembly of int32-length-prefixed frames."""

    def __init__(self):
        self.buf = bytearray()

    def feed(self, data):
        self.buf.extend(data)
        out = []
        while len(self.buf) >= 4:
            (n,) = struct.unpack_from(">i", self.buf, 0)
            if n < 0:
                raise ValueError("negative frame length %d" % n)
            if len(self.buf) < 4 + n:
                break
            out.append(bytes(self.buf[4:4 + n]))
            del self.buf[:4 + n]
        return out

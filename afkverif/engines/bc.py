"""Broker-client engine: the real _KafkaBrokerClient (+KafkaProtocol) and the
real KafkaBootstrapProtocol over simnet against a scripted raw server.

The server knows nothing about Kafka: it sees frames (first 4 bytes after the
length prefix... of a *request* are api key/version, bytes 4..8 the correlation
id) and decides what bytes to send back and when.
"""
import random
import struct

from twisted.internet.defer import CancelledError as TCancelled

from ..simnet import FrameBuffer, SimClock, SimNet, StepCapExceeded
from ..traps import Traps

HOST, PORT = "broker.sim", 9092


def make_request_bytes(cid, marker):
    # api_key=3 (metadata), version 0, correlation id, client id "h", then a marker
    return struct.pack(">hhih", 3, 0, cid, 1) + b"h" + marker


def req_id_of(frame):
    return struct.unpack(">i", frame[4:8])[0]


class RetryPolicy(object):
    def __init__(self, base, step):
        self.base = base
        self.step = step
        self.calls = []

    def __call__(self, n):
        self.calls.append(n)
        return self.base + self.step * n + (0.013 * (n % 3))

    def value(self, n):
        return self.base + self.step * n + (0.013 * (n % 3))


class RawServer(object):
    """Listener + per-connection handler driven by a plan."""

    up = True

    def __init__(self, clock, rng, plan, ghost_ids=frozenset(), ghost=False):
        self.clock = clock
        self.rng = rng
        self.plan = plan  # dict: behaviours
        self.ghost = ghost  # differential re-run: injected frames are drawn but not delivered
        self.conns = []  # SimConn in accept order
        self.received = {}  # conn id -> list of (time, req id, frame)
        self.sent = []  # (time, conn id, frame bytes, serial, kind)
        self.bufs = {}
        self.serial = 0
        self.seen = {}  # req id -> times received
        self.held = []  # (conn, req id) held until heal
        self.healed = False
        self.bad_frames = []

    # listener
    def on_connect(self, conn):
        self.conns.append(conn)
        self.received[conn.id] = []
        self.bufs[conn.id] = FrameBuffer()
        k = len(self.conns) - 1
        cut = self.plan.get("cuts", {}).get(k)
        if cut and not self.healed:
            if cut[0] == "c2s":
                conn.cut_c2s_at = cut[1]
            elif cut[0] == "s2c":
                conn.cut_s2c_at = cut[1]
            elif cut[0] == "time":
                self.clock.labelled(cut[1], "srv.timed_cut", conn.sever, "timed")
        return self

    # handler
    def data_received(self, conn, data):
        try:
            frames = self.bufs[conn.id].feed(data)
        except ValueError as e:
            self.bad_frames.append((self.clock.seconds(), conn.id, str(e)))
            conn.server_close(clean=False)
            return
        for f in frames:
            rid = req_id_of(f)
            self.received[conn.id].append((self.clock.seconds(), rid, f))
            n = self.seen.get(rid, 0)
            self.seen[rid] = n + 1
            self.react(conn, rid, n)

    def connection_closed(self, conn):
        pass

    def frame_for(self, rid):
        self.serial += 1
        return struct.pack(">i", rid) + b"resp-%d-serial-%d" % (rid & 0xFFFF, self.serial)

    def send_frame(self, conn, rid, kind="answer", ghostable=False):
        body = self.frame_for(rid)
        self.sent.append((self.clock.seconds(), conn.id, body, kind))
        wire = struct.pack(">i", len(body)) + body
        conn.server_send(wire, label="net.s2c." + kind, ghost=(ghostable and self.ghost))

    def react(self, conn, rid, nth):
        if self.healed:
            self.send_frame(conn, rid)
            return
        beh = self.plan.get("behaviour", {}).get((rid, nth))
        if beh is None:
            beh = self.plan.get("default", ("now",))
        kind = beh[0]
        if kind == "now":
            self.send_frame(conn, rid)
        elif kind == "delay":
            self.clock.labelled(beh[1], "srv.delayed_answer", self._late, conn, rid)
        elif kind == "twice":
            self.send_frame(conn, rid)
            self.clock.labelled(beh[1], "srv.duplicate_answer", self._late, conn, rid, "duplicate")
        elif kind == "never":
            self.held.append((conn, rid))
        elif kind == "close":
            conn.server_close(clean=beh[1])
        elif kind == "other_then_own":  # answers some other live request first
            other = beh[1]
            self.send_frame(conn, other, "swapped")
            self.send_frame(conn, rid)
        else:
            raise ValueError(beh)

    def _late(self, conn, rid, kind="answer"):
        if not conn.server_gone:
            self.send_frame(conn, rid, kind)

    def inject(self, kind, rid=None):
        """Unsolicited frame on the newest live connection."""
        live = [c for c in self.conns if not c.server_gone]
        if not live:
            return
        conn = live[-1]
        if kind == "oversize":
            self.sent.append((self.clock.seconds(), conn.id, b"<oversize>", "oversize"))
            conn.server_send(struct.pack(">I", self.plan.get("oversize_len", 0x80000000)), label="net.s2c.oversize")
            conn.server_send(self.plan.get("oversize_tail") or (b"\0" * 65536), label="net.s2c.oversize_tail")
            conn.oversize_at = self.clock.seconds()
        elif kind == "short_frame":
            # a frame too short to carry a correlation id (rid = its 0..3 content bytes, hex)
            content = bytes.fromhex(rid)
            self.sent.append((self.clock.seconds(), conn.id, content, "short_frame"))
            conn.server_send(struct.pack(">i", len(content)) + content, label="net.s2c.short_frame")
        else:
            self.send_frame(conn, rid, kind, ghostable=True)

    def heal(self):
        self.healed = True
        for conn, rid in self.held:
            if not conn.server_gone:
                self.send_frame(conn, rid)
        self.held = []


def gen_scenario(seed, variant=None):
    """A JSON-able scenario description."""
    rng = random.Random(seed)
    variant = variant or {}
    n_req = variant.get("n_req") or rng.choice((1, 2, 2, 3, 4, 5, 6, 8))
    ids = []
    while len(ids) < n_req:
        i = rng.choice((0, 1, 2 ** 31 - 1)) if rng.random() < 0.1 else rng.randint(0, 2 ** 31 - 1)
        if i not in ids:
            ids.append(i)
    actions = []
    H = rng.choice((1.0, 3.0, 6.0))
    t = 0.0
    spread = rng.random() < 0.6
    for k, i in enumerate(ids):
        if spread and k > 0 and rng.random() < 0.5:
            t = round(rng.uniform(0, H), 4)
        else:
            t = t + rng.choice((0, 0, 0, 0.01, 0.05, 0.3, 1.0))
        actions.append([round(t, 4), "req", i, rng.random() < 0.85])
    horizon = max(H, max(a[0] for a in actions)) + 2.0
    # once in a while a request the transport cannot write (text instead of bytes): it has to fail, once, and leave
    # the others alone
    # (drawn from a stream of its own: the main stream decides everything else)
    rng_u = random.Random((seed * 2654435761) ^ 0xBADB17E5)
    unwritable = [i for i in ids if rng_u.random() < 0.04] if not (variant or {}).get("n_req") else []
    # things done from inside a request's completion callback (re-entrancy)
    on_fire = {}
    extra_ids = []
    for i in ids:
        if rng.random() < 0.15:
            what = rng.choice(("close", "req", "req", "cancel_other", "disconnect"))
            arg = None
            if what == "req":
                arg = rng.randint(0, 2 ** 31 - 1)
                while arg in ids or arg in extra_ids:
                    arg = rng.randint(0, 2 ** 31 - 1)
                extra_ids.append(arg)
            elif what == "cancel_other":
                arg = rng.choice(ids)
            on_fire[str(i)] = [what, arg]
    behaviour = []
    for i in ids + extra_ids:
        for nth in range(3):
            r = rng.random()
            if r < 0.45:
                b = ["now"]
            elif r < 0.65:
                b = ["delay", round(rng.choice((0.001, 0.02, 0.3, 1.5)), 4)]
            elif r < 0.75:
                b = ["twice", round(rng.choice((0.0, 0.01, 0.5)), 4)]
            elif r < 0.87:
                b = ["never"]
            elif r < 0.93 and n_req > 1:
                b = ["other_then_own", rng.choice([x for x in ids if x != i])]
            else:
                b = ["close", rng.random() < 0.5]
            behaviour.append([i, nth, b])
    for i in ids:
        if rng.random() < 0.3:
            actions.append([round(rng.uniform(0, horizon), 4), "cancel", i])
    for _ in range(rng.choice((0, 0, 1, 2))):
        actions.append([round(rng.uniform(0, horizon), 4), "disconnect"])
    injections = []
    unknown = [x for x in (5, 77, 2 ** 31 - 2, 123456) if x not in ids]
    for _ in range(rng.choice((0, 0, 1, 2, 3))):
        injections.append([round(rng.uniform(0, horizon), 4), "unknown_id", rng.choice(unknown)])
    for i in ids:
        if rng.random() < 0.12:
            injections.append([round(rng.uniform(0, horizon), 4), "cancelled_id", i])
    if rng.random() < 0.06:
        injections.append([round(rng.uniform(0, horizon), 4), "oversize", None])
    connect = []
    for k in range(12):
        r = rng.random()
        connect.append("accept" if r < 0.7 else ("refuse" if r < 0.91 else ("refuse_sync" if r < 0.97 else "blackhole")))
    if variant.get("connect"):
        connect = variant["connect"]
    cuts = {}
    for k in range(3):
        if rng.random() < 0.3:
            kind = rng.choice(("c2s", "s2c", "time"))
            cuts[str(k)] = [kind, rng.randint(0, 80) if kind != "time" else round(rng.uniform(0, 1.0), 4)]
    if "cuts" in variant:
        cuts = variant["cuts"]
    end = rng.choice(("heal", "heal", "close", "close_mid"))
    if variant.get("end"):
        end = variant["end"]
    if end == "close_mid":
        actions.append([round(rng.uniform(0, horizon), 4), "close"])
    actions.sort(key=lambda a: a[0])
    return dict(seed=seed, ids=ids, on_fire=on_fire, extra_ids=extra_ids, unwritable=unwritable, actions=actions, behaviour=behaviour, injections=injections, connect=connect,
                cuts=cuts, end=end, horizon=horizon,
                latency=variant.get("latency", rng.choice((0.0, 0.0, 0.002, 0.05))),
                chunk=variant.get("chunk", rng.choice(("whole", "whole", "bytes", "random", "coalesce", "prefix_split",
                                                       "mixed"))),
                retry_base=rng.choice((0.05, 0.2, 1.0)), retry_step=rng.choice((0.0, 0.07, 0.5)))


def pattern_scenario(seed):
    """Hand-shaped situations the random stream reaches only now and then: what the request table looks like when the
    connection is lost or the client is closed (cancelled entries among live ones, callbacks that cancel siblings)."""
    rng = random.Random(seed ^ 0x9A77E24)
    n = rng.randint(3, 7)
    ids = rng.sample(range(1, 2 ** 31 - 1), n)
    kind = rng.choice(("lost_with_cancelled", "lost_with_cancelled", "close_cancels_sibling", "close_cancels_sibling",
                       "lost_then_close", "disconnect_window", "disconnect_window", "flush_on_connect",
                       "flush_on_connect", "odd_ids", "odd_ids", "late_data", "late_data", "cancel_while_connecting",
                       "cancel_while_connecting"))
    t0 = [round(rng.choice((0.0, 0.0, 0.01, 0.03)) * k, 4) for k in range(n)]
    actions = [[t0[k], "req", i, True] for k, i in enumerate(ids)]
    on_fire, behaviour, cuts, connect = {}, [], {}, ["accept"] * 12
    end = "heal"
    horizon = 3.0
    force_latency = None
    injections = []
    linger = None
    oversize_tail = None
    if kind == "cancel_while_connecting":
        # the only request is cancelled while the connection is still being set up, and that attempt then fails with
        # nothing queued; whatever is asked later must still get a connection
        force_latency = rng.choice((0.02, 0.05))
        connect = [rng.choice(("refuse", "refuse", "blackhole"))] + ["refuse"] * rng.choice((0, 0, 1, 2)) + ["accept"] * 12
        first = ids[0]
        later = ids[1:]
        actions = [[0.0, "req", first, True], [round(rng.uniform(0.001, 0.015), 4), "cancel", first]]
        t_l = rng.choice((0.3, 1.0, 2.0))
        for k, i in enumerate(later):
            actions.append([round(t_l + 0.01 * k, 4), "req", i, True])
        for i in ids:
            for nth in range(3):
                behaviour.append([i, nth, ["now"]])
        if connect[0] == "blackhole":
            # (a black-holed attempt is the endpoint's to give up on: make it the second request's problem only if it
            # is cancelled by the harness, which it is not - so use a refusal there)
            connect[0] = "refuse"
    elif kind == "late_data":
        # a transport that keeps delivering after loseConnection() until the closing handshake is through (TLS):
        # a reply that arrives right behind disconnect(), and what follows an impossible length prefix - bytes
        # shaped like frames that bear the ids of requests in flight
        linger = rng.choice((0.02, 0.05))
        force_latency = 0.0
        what = rng.choice(("reply_after_disconnect", "frames_after_oversize"))
        td = round(rng.uniform(0.2, 0.5), 4)
        for k, i in enumerate(ids):
            behaviour.append([i, 0, ["never"]])
            behaviour.append([i, 1, ["now"]])
            behaviour.append([i, 2, ["now"]])
        if what == "reply_after_disconnect":
            k = rng.randrange(n)
            behaviour[3 * k] = [ids[k], 0, ["delay", round(td - t0[k] + linger / 2.0, 4)]]
            actions.append([td, "disconnect"])
        else:
            injections.append([td, "oversize", None])
            oversize_tail = b"".join(struct.pack(">ii", 12, i) + b"INNARDS!" for i in rng.sample(ids, min(2, n))) * 3
            oversize_tail = oversize_tail.hex()
    elif kind == "odd_ids":
        # correlation ids at the edges of int32 (negative ones included: the broker client takes what it is given),
        # and frames too short to carry an id at all - the bytes they do carry spell the id of a request in flight
        pool = [0, 7, 258, 65537, -1, -2, -7, -2 ** 31, 2 ** 31 - 1, -65536, 2 ** 24 + 3]
        ids = rng.sample(pool, n)
        t0 = [round(0.01 * k, 4) for k in range(n)]
        actions = [[t0[k], "req", i, True] for k, i in enumerate(ids)]
        short = rng.random() < 0.6
        for i in ids:
            behaviour.append([i, 0, ["delay", 0.5] if short else (["now"] if rng.random() < 0.6 else ["delay", 0.05])])
            behaviour.append([i, 1, ["now"]])
            behaviour.append([i, 2, ["now"]])
        if short:
            for _ in range(rng.choice((1, 1, 2))):
                i = rng.choice(ids)
                raw = struct.pack(">i", i)
                content = rng.choice((b"", raw[3:], raw[2:], raw[1:], raw[:2], raw[:3]))
                injections.append([round(rng.uniform(0.1, 0.4), 4), "short_frame", content.hex()])
    elif kind == "flush_on_connect":
        # everything is queued before the connection exists; when it comes up the queue is flushed, requests that
        # expect no reply complete as they are written, and their callbacks cancel / issue / disconnect in the
        # middle of the flush
        force_latency = rng.choice((0.01, 0.05))
        actions = [[0.0, "req", i, not (k < n - 1 and rng.random() < 0.5)] for k, i in enumerate(ids)]
        if all(a[3] for a in actions):
            actions[0][3] = False
        for i in ids:
            for nth in range(3):
                behaviour.append([i, nth, ["now"] if rng.random() < 0.8 else ["delay", 0.02]])
        for k, a in enumerate(actions):
            if not a[3]:
                later = [x for x in ids[k + 1:]]
                r = rng.random()
                if later and r < 0.6:
                    on_fire[str(a[2])] = ["cancel_other", rng.choice(later)]
                elif r < 0.75:
                    on_fire[str(a[2])] = ["disconnect", None]
        if rng.random() < 0.3:
            connect = ["refuse"] + connect
    elif kind == "disconnect_window":
        # disconnect() on a live connection with requests outstanding, and in the same reactor turn - before the
        # transport has reported the loss - another request, a cancel, or close()
        td = round(rng.uniform(0.2, 0.6), 4)
        for i in ids:
            behaviour.append([i, 0, ["never"] if rng.random() < 0.6 else ["delay", 1.0]])
            behaviour.append([i, 1, ["now"]])
            behaviour.append([i, 2, ["now"]])
        late = ids[-1]
        actions = [a for a in actions if a[2] != late]
        actions.append([td, "disconnect"])
        what = rng.choice(("req", "req", "close", "req_close", "cancel_req"))
        if what in ("req", "req_close", "cancel_req"):
            if what == "cancel_req":
                actions.append([td, "cancel", ids[0]])
            actions.append([td, "req", late, True])
        else:
            ids = ids[:-1]
        if what in ("close", "req_close"):
            actions.append([td, "close"])
        if rng.random() < 0.3:
            actions.append([round(td + rng.choice((0.0, 0.001, 0.3)), 4), "disconnect"])
    elif kind in ("lost_with_cancelled", "lost_then_close"):
        # every request is written and unanswered; some are cancelled; then the connection goes away; after the
        # reconnect the survivors are answered
        cut_t = round(rng.uniform(0.3, 0.8), 4)
        for k, i in enumerate(ids):
            behaviour.append([i, 0, ["never"] if rng.random() < 0.7 else ["delay", 1.5]])
            behaviour.append([i, 1, ["now"] if rng.random() < 0.7 else ["delay", 0.02]])
            behaviour.append([i, 2, ["now"]])
        victims = rng.sample(ids, rng.randint(1, max(1, n - 2)))
        if rng.random() < 0.5:
            victims = sorted(set(victims + [ids[0]]), key=ids.index)
        for v in victims:
            actions.append([round(rng.uniform(0.1, cut_t - 0.05), 4), "cancel", v])
        cuts = {"0": ["time", cut_t]}
        if rng.random() < 0.4:
            cuts["1"] = ["time", round(cut_t + rng.uniform(0.3, 0.6), 4)]
        if kind == "lost_then_close":
            end = "close"
    else:
        # nothing is ever written (no connection comes up); close() fails the requests and their callbacks cancel
        # siblings / issue requests / close again
        connect = [rng.choice(("refuse", "blackhole", "refuse"))] * 12
        for i in ids:
            for nth in range(3):
                behaviour.append([i, nth, ["now"]])
        for i in ids:
            r = rng.random()
            if r < 0.6:
                on_fire[str(i)] = ["cancel_other", rng.choice([x for x in ids if x != i])]
            elif r < 0.7:
                on_fire[str(i)] = ["close", None]
        if rng.random() < 0.3:
            actions.append([round(rng.uniform(0.1, 1.0), 4), "cancel", rng.choice(ids)])
        end = "close"
    actions.sort(key=lambda a: a[0])
    return dict(seed=seed, ids=ids, on_fire=on_fire, extra_ids=[], unwritable=[], actions=actions, behaviour=behaviour,
                injections=injections, connect=connect, cuts=cuts, end=end, horizon=horizon, pattern=kind,
                linger=linger, oversize_tail=oversize_tail,
                latency=rng.choice((0.0, 0.002, 0.02)) if force_latency is None else force_latency,
                chunk=rng.choice(("whole", "bytes", "random")),
                retry_base=rng.choice((0.05, 0.2)), retry_step=rng.choice((0.0, 0.07)))


class Trace(object):
    pass


def run_scenario(sc, ghost=False, debug=False):
    """Runs the scenario against the real broker client.  Returns a Trace."""
    from afkak.brokerclient import _KafkaBrokerClient
    from afkak.common import BrokerMetadata
    rng = random.Random(sc["seed"] ^ 0x5EED)
    clock = SimClock()
    net = SimNet(clock, rng, max_latency=sc["latency"], chunk_mode=sc["chunk"])
    net.linger_reads = sc.get("linger")
    plan = dict(behaviour={(i, n): tuple(b) for i, n, b in sc["behaviour"]},
                cuts={int(k): tuple(v) for k, v in sc["cuts"].items()})
    if sc.get("oversize_tail"):
        plan["oversize_tail"] = bytes.fromhex(sc["oversize_tail"])
    server = RawServer(clock, rng, plan, ghost=ghost)
    net.listen(HOST, PORT, server)
    connect_plan = list(sc["connect"])
    state = dict(healed=False)

    def policy(host, port, n):
        if state["healed"]:
            return ("accept", None)
        if n < len(connect_plan):
            return (connect_plan[n], None)
        return ("accept", None)
    net.connect_policy = policy
    retry = RetryPolicy(sc["retry_base"], sc["retry_step"])
    tr = Trace()
    tr.sc = sc
    tr.reqs = {}  # id -> dict(issued, expect, cancelled, fires=[(t, ok, value|type name)], bytes)
    tr.issue_order = []
    tr.close_called = None
    tr.close_fired = []
    tr.close_raised = None
    tr.errors = []
    tr.disconnects = []
    tr.reentrant = []
    with Traps() as traps:
        bc = _KafkaBrokerClient(clock, net, BrokerMetadata(1, HOST, PORT), "verif", retry)
        tr.bc = bc

        def do_req(rid, expect):
            if tr.close_called is not None and rid in tr.reqs:
                return
            marker = b"req-%d" % (rid & 0xFFFF)
            data = make_request_bytes(rid, marker)
            if rid in sc.get("unwritable", ()):
                data = data.decode("latin-1")  # text where bytes are required: the transport write raises
            rec = dict(issued=clock.seconds(), expect=expect, cancelled=None, fires=[], bytes=data, d=None,
                       after_close=tr.close_called is not None)
            tr.reqs[rid] = rec
            tr.issue_order.append(rid)
            net.log.append(("issue", clock.seconds(), rid, expect))
            try:
                d = bc.makeRequest(rid, data, expectResponse=expect)
            except Exception as e:
                rec["raised"] = repr(e)
                return
            rec["d"] = d

            def fired(result, ok):
                rec["fires"].append((clock.seconds(), ok, result if ok else type(result.value).__name__))
                net.log.append(("fire", clock.seconds(), rid, ok, None if ok else type(result.value).__name__))
                act = sc.get("on_fire", {}).get(str(rid))
                if act is not None and len(rec["fires"]) == 1:
                    tr.reentrant.append((clock.seconds(), rid, act[0]))
                    if act[0] == "close":
                        do_close()
                    elif act[0] == "req":
                        do_req(act[1], True)
                    elif act[0] == "cancel_other":
                        do_cancel(act[1])
                    elif act[0] == "disconnect":
                        do_disconnect()
                return None
            d.addCallbacks(fired, fired, callbackArgs=(True,), errbackArgs=(False,))

        def do_cancel(rid):
            rec = tr.reqs.get(rid)
            if rec is None or rec["d"] is None or rec["fires"] or rec["cancelled"] is not None:
                return
            rec["cancelled"] = clock.seconds()
            net.log.append(("cancel", clock.seconds(), rid))
            rec["d"].cancel()

        def do_close():
            if tr.close_called is not None:
                return
            tr.close_called = clock.seconds()
            net.log.append(("close_call", clock.seconds()))
            try:
                d = bc.close()
            except Exception as e:
                tr.close_raised = repr(e)
                return
            tr.close_d = d

            def close_fired(r):
                tr.close_fired.append((clock.seconds(), repr(r)[:80]))
                net.log.append(("close_fired", clock.seconds()))
            d.addBoth(close_fired)

        def do_disconnect():
            tr.disconnects.append(clock.seconds())
            net.log.append(("disconnect_call", clock.seconds()))
            bc.disconnect()

        for a in sc["actions"]:
            t, kind = a[0], a[1]
            if kind == "req":
                clock.labelled(t, "call.req", do_req, a[2], a[3])
            elif kind == "cancel":
                clock.labelled(t, "call.cancel", do_cancel, a[2])
            elif kind == "disconnect":
                clock.labelled(t, "call.disconnect", do_disconnect)
            elif kind == "close":
                clock.labelled(t, "call.close", do_close)
        for t, kind, rid in sc["injections"]:
            if kind == "cancelled_id":
                def inj(rid=rid):
                    rec = tr.reqs.get(rid)
                    if rec is not None and rec["cancelled"] is not None:
                        server.inject("cancelled_id", rid)
                clock.labelled(t, "srv.inject_cancelled", inj)
            elif kind == "unknown_id":
                clock.labelled(t, "srv.inject_unknown", server.inject, "unknown_id", rid)
            elif kind == "short_frame":
                clock.labelled(t, "srv.inject_short_frame", server.inject, "short_frame", rid)
            else:
                clock.labelled(t, "srv.inject_oversize", server.inject, "oversize")
        tr.capped = False
        tr.pending_after_heal = []
        mark = [0]

        def quiesce():
            if len(net.log) != mark[0]:
                net.log.append(("quiesce", clock.seconds()))
                mark[0] = len(net.log)
        clock.hooks.append(quiesce)
        try:
            clock.run(until=sc["horizon"] + 3.0, max_steps=60000)
            if sc["end"] in ("heal",):
                state["healed"] = True
                net.log.append(("heal", clock.seconds()))
                server.heal()
                tr.heal_t = clock.seconds()
                clock.run(until=clock.seconds() + 60.0, max_steps=60000)
            pending = [r for r in tr.reqs.values() if r["d"] is not None and not r["fires"]]
            tr.pending_after_heal = [rid for rid, r in tr.reqs.items() if r["d"] is not None and not r["fires"]] \
                if (sc["end"] == "heal" and tr.close_called is None and not net.pending_attempts) else []
            # (a connection attempt the network never completes is the endpoint's to time out, not afkak's)
            if pending or sc["end"] == "close" or tr.close_called is None:
                do_close()
            clock.run(until=clock.seconds() + 30.0, max_steps=60000)
        except StepCapExceeded:
            tr.capped = True
        traps.flush()
    tr.clock = clock
    tr.net = net
    tr.server = server
    tr.retry = retry
    tr.unhandled = traps.unhandled
    tr.second_firings = traps.second_firings
    tr.logged = traps.errors_logged
    tr.clock_errors = clock.errors
    return tr


# -- derived views -----------------------------------------------------------


def client_frames(conn):
    """[(time, req id, frame)] the client wrote on this connection."""
    fb = FrameBuffer()
    out = []
    for t, data in conn.c2s:
        for f in fb.feed(data):
            out.append((t, req_id_of(f), f))
    return out


def delivered_frames(conn):
    """[(time, frame)] complete frames delivered to the client on this connection."""
    buf = bytearray()
    out = []
    for t, data in conn.s2c:
        buf.extend(data)
        while len(buf) >= 4:
            (n,) = struct.unpack_from(">I", buf, 0)
            if n >= 0x80000000:
                return out  # oversize prefix: nothing after it is a frame
            if len(buf) < 4 + n:
                break
            out.append((t, bytes(buf[4:4 + n])))
            del buf[:4 + n]
    return out


def outcome_table(tr, skip=()):
    out = {}
    for rid, rec in tr.reqs.items():
        if rid in skip:
            continue
        out[rid] = tuple((round(t, 9), ok, v) for t, ok, v in rec["fires"])
    return out

"""Consumer engine: the real Consumer -> KafkaClient -> broker clients -> codec
against a partition log generated as data.  Shared by C02, C03, C13, C14."""
import random

from twisted.internet.defer import Deferred, fail, succeed
from twisted.python.failure import Failure

from ..traps import Traps
from .world import World

TOPIC = "ct"
PART = 0
GROUP = "cg"


from twisted.internet.defer import CancelledError as TCancelledError  # noqa: E402


class ProcessorBoom(Exception):
    pass


def rec_key(off):
    return b"k%d" % off


def rec_value(off, size=0):
    head = b"v%d:" % off
    return head + b"y" * max(0, size - len(head))


def gen_log(rng, n_batches, big=None, start=0):
    """List of batches: dict(offsets, sizes, magic, codec)."""
    out = []
    off = start
    for _ in range(n_batches):
        if rng.random() < 0.15:
            off += rng.choice((1, 2, 5, 40))  # compaction / retention gap between batches
        n = rng.choice((1, 1, 2, 3, 4, 6))
        offs = []
        for _i in range(n):
            offs.append(off)
            off += 1 if rng.random() > 0.12 else rng.choice((2, 3, 7))
        sizes = [rng.choice((0, 0, 10, 40, 200)) for _ in offs]
        if big and rng.random() < big[0]:
            sizes[rng.randrange(len(sizes))] = rng.choice(big[1])
        out.append(dict(offsets=offs, sizes=sizes, magic=rng.choice((0, 1)), codec=rng.choice((0, 0, 1))))
    return out


def gen_scenario(seed, profile="stream"):
    rng = random.Random(seed)
    nb = rng.choice((1, 2, 3))
    brokers = list(range(1, nb + 1))
    leader = rng.choice(brokers)
    discovery = rng.random() < 0.5
    buffer_size = rng.choice((256, 512, 2048, 8192))
    big = None
    if profile in ("stream", "retry") and rng.random() < 0.35:
        big = (0.15, (buffer_size + 50, buffer_size * 3, buffer_size * 20, 70000))
    log = gen_log(rng, rng.choice((3, 6, 12, 25, 40)), big=big, start=rng.choice((0, 0, 0, 17, 1000)))
    all_offs = [o for b in log for o in b["offsets"]]
    group = profile in ("commit", "stop") or rng.random() < 0.4
    cfg = dict(
        discovery=discovery,
        buffer_size=buffer_size,
        max_buffer_size=rng.choice((None, None, buffer_size * 16, 1 << 20, 2 << 20)),
        retry_init=rng.choice((0.1, 0.25, 1.0)),
        retry_max=rng.choice((0.5, 2.0, 30.0)),
        max_attempts=rng.choice((0, 0, 0, 2, 3, 5)),
        reset=rng.choice((None, None, "earliest", "latest")),
        group=group,
        commit_every_n=(rng.choice((0, 1, 2, 3, 5, 100)) if group else None),
        commit_every_ms=(rng.choice((0, 300, 1000, 5000)) if group else None),
        fetch_wait_ms=rng.choice((20, 100)),
        fetch_min_bytes=rng.choice((1, 1, 4096)),
        timeout=rng.choice((1.0, 3.0)),
    )
    # start position
    r = rng.random()
    stored = None
    if group and rng.random() < 0.6:
        stored = rng.choice(all_offs + [all_offs[0] - 1 if all_offs[0] > 0 else all_offs[0]])
    if r < 0.3:
        start = ["num", rng.choice(all_offs + [all_offs[-1] + 1, all_offs[0]])]
    elif r < 0.5:
        start = ["earliest"]
    elif r < 0.6:
        start = ["latest"]
    elif r < 0.85 and group:
        start = ["committed"]
    else:
        start = ["num", all_offs[0]]
    if profile == "stream" and rng.random() < 0.07:
        start = ["num", rng.choice((all_offs[-1] + 50, max(0, all_offs[0] - 5)))]  # out of range
    # processor behaviours, by call index
    procs = []
    for _ in range(12):
        r = rng.random()
        if r < 0.45:
            procs.append(["sync"])
        elif r < 0.72:
            procs.append(["async", rng.choice((0.0, 0.01, 0.2, 1.5))])
        elif r < 0.8:
            # an already-fired Deferred whose callback chain is paused on a pending one
            procs.append(["chained", rng.choice((0.01, 0.2, 1.5))])
        elif r < 0.86 and profile in ("commit", "stop"):
            procs.append(["fail_sync"])
        elif r < 0.92 and profile in ("commit", "stop"):
            procs.append(["fail_async", rng.choice((0.0, 0.3))])
        elif r < 0.95 and group:
            procs.append(["commit_inside"])
        elif r < 0.97 and profile == "stop":
            procs.append(["stop_inside"])
        elif r < 0.99 and profile == "stop":
            procs.append(["shutdown_inside"])
        else:
            procs.append(["sync"])
    # background appends
    appends = []
    t = 0.0
    for _ in range(rng.choice((0, 0, 1, 3, 6))):
        t += rng.choice((0.1, 0.5, 2.0))
        appends.append([round(t, 4), rng.choice((1, 2, 4)), rng.choice((0, 1)), rng.choice((0, 0, 1))])
    # faults
    faults = []
    if profile != "clean":
        for _ in range(rng.choice((0, 0, 1, 2, 4))):
            api = rng.choice(("Fetch", "Fetch", "Fetch", "ListOffsets", "OffsetFetch", "OffsetCommit", "FindCoordinator",
                              "Metadata"))
            r = rng.random()
            if api == "Fetch" and rng.random() < 0.25:
                faults.append(dict(api=api, nth=[rng.randint(0, 3)], action=dict(kind="corrupt")))
                continue
            if r < 0.5:
                code = rng.choice((3, 5, 6, 7, 9, 14, 15, 16, 2, -1))
                act = dict(kind="error", code=code)
            elif r < 0.7:
                act = dict(kind="silent", apply=rng.random() < 0.5)
            elif r < 0.9:
                act = dict(kind="drop", apply=rng.random() < 0.5)
            else:
                act = dict(kind="ok", delay=rng.choice((0.2, 1.5)))
            faults.append(dict(api=api, nth=[rng.randint(0, 5)], action=act))
    events = []
    if profile in ("stream",) and rng.random() < 0.3 and nb > 1:
        events.append([round(rng.uniform(0, 3), 4), "move", rng.choice(brokers)])
    if profile in ("stream",) and rng.random() < 0.12 and cfg["reset"]:
        events.append([round(rng.uniform(0.2, 2), 4), "truncate", rng.choice(all_offs[len(all_offs) // 2:])])
    actions = []
    horizon = t + 6.0
    if profile in ("stream", "commit") and rng.random() < 0.3:
        ts = round(rng.uniform(0.05, horizon - 2), 4)
        actions.append([ts, rng.choice(("stop", "shutdown"))])
        actions.append([round(ts + rng.choice((0.5, 1.5)), 4), "restart", rng.choice(("committed", "next", "earliest"))
                        if group else rng.choice(("next", "earliest"))])
    if group and profile in ("commit", "stream"):
        for _ in range(rng.choice((0, 1, 2, 4))):
            actions.append([round(rng.uniform(0, horizon - 1), 4), "commit"])
    actions.sort(key=lambda a: a[0])
    # drawn from a stream of their own (the main stream decides everything above): wrappers whose records were all
    # compacted away, left where the log has a free offset between two batches; a maximum buffer size that is not a
    # value the growth steps land on
    rng2 = random.Random((seed * 2246822519) ^ 0x5EEDBA7C)
    if big is not None and rng2.random() < 0.5:
        cfg["max_buffer_size"] = rng2.choice((buffer_size * 16 + 1, 100000, 150001, (1 << 20) + 1, 3000001))
    if profile in ("stream", "retry", "commit") and rng2.random() < 0.3:
        newlog = []
        for i, b in enumerate(log):
            newlog.append(b)
            if i + 1 < len(log) and log[i + 1]["offsets"][0] - b["offsets"][-1] >= 2 and rng2.random() < 0.7:
                newlog.append(dict(offsets=[b["offsets"][-1] + 1], sizes=[], magic=rng2.choice((0, 1)), codec=1,
                                   hollow=True))
                if rng2.random() < 0.6:
                    # ... and the record right behind it does not fit the initial buffer (but does fit the maximum)
                    sz = rng2.choice((buffer_size + 50, buffer_size * 3, buffer_size * 20))
                    if cfg["max_buffer_size"] is not None:
                        sz = min(sz, cfg["max_buffer_size"] - 400)
                    if sz > log[i + 1]["sizes"][0]:
                        log[i + 1]["sizes"][0] = sz
        log = newlog
    return dict(seed=seed, profile=profile, brokers=brokers, leader=leader, log=log, cfg=cfg, start=start,
                stored=stored, procs=procs, appends=appends, faults=faults, events=events, actions=actions,
                horizon=horizon, latency=0.0 if profile == "retry" else rng.choice((0.0, 0.002, 0.02)),
                log_start=None)


class Trace(object):
    pass


def build_world(sc):
    w = World(sc["seed"], brokers=sc["brokers"], latency=sc["latency"])
    cl = w.cluster
    cl.add_topic(TOPIC, {PART: sc["leader"]})
    lg = cl.log(TOPIC, PART)
    for b in sc["log"]:
        if b.get("hollow"):
            lg.add_hollow(b["offsets"][0], magic=b["magic"], codec=1)
            continue
        recs = [(rec_key(o), rec_value(o, s), 1000 + o) for o, s in zip(b["offsets"], b["sizes"])]
        lg.add_batch(b["offsets"], recs, magic=b["magic"], codec=b["codec"])
    lg.log_start = sc["log"][0]["offsets"][0] if sc["log"] else 0
    if sc.get("log_start") is not None:
        lg.truncate_before(sc["log_start"])
    w.truth = dict((o, (k, v)) for (o, k, v, ts, magic, bid) in lg.all_records())
    cl.coordinators[GROUP] = sc["brokers"][0]

    def srv_event(ev):
        if "req" in ev:
            w.net.log.append(("srv", w.clock.seconds(), ev["api"], ev))
    cl.on_event.append(srv_event)

    def srv_recv(ev):
        ev["recv_idx"] = len(w.net.log)
        w.net.log.append(("srv_recv", w.clock.seconds(), ev["api"], ev["seq"]))
    cl.on_receive.append(srv_recv)
    if sc.get("stored") is not None:
        cl.offsets[(GROUP, TOPIC, PART)] = (sc["stored"], "")
    for f in sc["faults"]:
        cl.faults.add(f)
    return w


def start_offset_arg(start):
    from afkak import OFFSET_COMMITTED, OFFSET_EARLIEST, OFFSET_LATEST
    if start[0] == "num":
        return start[1]
    return {"earliest": OFFSET_EARLIEST, "latest": OFFSET_LATEST, "committed": OFFSET_COMMITTED}[start[0]]


def make_consumer(w, client, sc, processor):
    from afkak import OFFSET_EARLIEST, OFFSET_LATEST, Consumer
    cfg = sc["cfg"]
    kw = {}
    if cfg["group"]:
        kw = dict(consumer_group=GROUP, auto_commit_every_n=cfg["commit_every_n"],
                  auto_commit_every_ms=cfg["commit_every_ms"])
    reset = {None: None, "earliest": OFFSET_EARLIEST, "latest": OFFSET_LATEST}[cfg["reset"]]
    return Consumer(client, TOPIC, PART, processor, fetch_size_bytes=cfg["fetch_min_bytes"],
                    fetch_max_wait_time=cfg["fetch_wait_ms"], buffer_size=cfg["buffer_size"],
                    max_buffer_size=cfg["max_buffer_size"], request_retry_init_delay=cfg["retry_init"],
                    request_retry_max_delay=cfg["retry_max"], request_retry_max_attempts=cfg["max_attempts"],
                    auto_offset_reset=reset, **kw)


def run_scenario(sc, hooks=None, world=None, crash_after_write=None):
    """Runs the scenario.  hooks: dict of optional callables
         built(tr)            after consumer construction, before start
         quiesce(tr)          after every reactor event
    """
    hooks = hooks or {}
    random.seed(sc["seed"])
    w = world or build_world(sc)
    cl = w.cluster
    cfg = sc["cfg"]
    tr = Trace()
    tr.sc = sc
    tr.w = w
    tr.cluster = cl
    tr.calls = []
    tr.starts = []
    tr.stops = []
    tr.shutdowns = []
    tr.commits = []
    tr.commit_issues = []
    tr.capped = False
    log = w.net.log
    with Traps() as traps:
        client = w.client(timeout=int(cfg["timeout"] * 1000), enable_protocol_version_discovery=cfg["discovery"])
        tr.client = client
        # issue time of commits: the consumer's call into the public client API
        orig_commit_req = client.send_offset_commit_request

        def commit_spy(group, payloads=None, *a, **kw):
            val = payloads[0].offset if payloads else None
            entry = dict(t=w.clock.seconds(), value=val, idx=len(log), generation=kw.get("group_generation_id", -1),
                         fires=[])
            tr.commit_issues.append(entry)
            log.append(("commit_issued", w.clock.seconds(), val))
            d = orig_commit_req(group, payloads, *a, **kw)

            def fired(r):
                entry["fires"].append((w.clock.seconds(), not isinstance(r, Failure)))
                log.append(("commit_request_done", w.clock.seconds(), val, not isinstance(r, Failure)))
                return r
            d.addBoth(fired)
            return d
        client.send_offset_commit_request = commit_spy
        state = dict(call_no=0)

        def processor(consumer, msgs):
            n = state["call_no"]
            state["call_no"] += 1
            beh = sc["procs"][n % len(sc["procs"])]
            call = dict(id=n, t=w.clock.seconds(), idx=len(log), consumer=consumer_ids.get(id(consumer)),
                        msgs=[(m.offset, m.message.key, m.message.value) for m in msgs], done=None, ok=None,
                        beh=beh[0], pending_at_call=[c["id"] for c in tr.calls if c["done"] is None],
                        after_stop=bool(tr.stops) and tr.stops[-1].get("returned") is not None and not tr.stops[-1].get(
                            "restarted"))
            tr.calls.append(call)
            log.append(("proc_call", w.clock.seconds(), n, [m.offset for m in msgs]))

            def done(ok):
                call["done"] = w.clock.seconds()
                call["ok"] = ok
                call["done_idx"] = len(log)
                log.append(("proc_done", w.clock.seconds(), n, ok))
            kind = beh[0]
            # what a failing processor fails with: mostly an exception of its own; now and then the application has
            # cancelled its own unit of work and the failure is a CancelledError (no draw: by scenario and call)
            boom = TCancelledError if (sc["seed"] + n) % 4 == 0 else ProcessorBoom
            if kind == "sync":
                done(True)
                return None
            if kind == "fail_sync":
                done(False)
                raise boom("processor failed on call %d" % n)
            if kind == "chained":
                def inner_cancelled(_d):
                    if call["done"] is None:
                        call["done"] = w.clock.seconds()
                        call["ok"] = None
                        call["cancelled"] = True
                        log.append(("proc_cancelled", w.clock.seconds(), n))
                inner = Deferred(inner_cancelled)

                def fire_inner():
                    if call["done"] is None:
                        done(True)
                    if not inner.called:
                        inner.callback(None)
                w.clock.labelled(beh[1], "proc.complete", fire_inner)
                outer = succeed(None)
                outer.addCallback(lambda _: inner)
                return outer
            if kind in ("async", "fail_async"):
                def fire():
                    if d.called:
                        return
                    if kind == "async":
                        done(True)
                        d.callback(None)
                    else:
                        done(False)
                        d.errback(boom("processor failed (async) on call %d" % n))

                def cancelled(_d):
                    if call["done"] is None:
                        call["done"] = w.clock.seconds()
                        call["ok"] = None
                        call["cancelled"] = True
                        log.append(("proc_cancelled", w.clock.seconds(), n))
                d = Deferred(cancelled)
                w.clock.labelled(beh[1], "proc.complete", fire)
                return d
            if kind == "commit_inside":
                do_commit("inside")
                done(True)
                return None
            if kind == "stop_inside":
                do_stop("inside")
                done(True)
                return None
            if kind == "shutdown_inside":
                do_shutdown("inside")
                done(True)
                return None
            done(True)
            return None

        consumer_ids = {}
        consumer = make_consumer(w, client, sc, processor)
        consumer_ids[id(consumer)] = 0
        tr.consumer = consumer
        tr.consumers = [consumer]
        if "built" in hooks:
            hooks["built"](tr)
        base = w.clock.seconds()
        tr.base = base

        def do_start(arg, label):
            c = tr.consumer
            st = dict(t=w.clock.seconds(), arg=arg, label=label, fires=[], idx=len(log), raised=None)
            tr.starts.append(st)
            log.append(("start", w.clock.seconds(), arg))
            try:
                d = c.start(arg)
            except Exception as e:
                st["raised"] = type(e).__name__
                return
            st["d"] = d

            def fired(r):
                st["fires"].append((w.clock.seconds(), not isinstance(r, Failure),
                                    r if not isinstance(r, Failure) else r, len(log)))
                log.append(("start_fired", w.clock.seconds(), not isinstance(r, Failure),
                            r if not isinstance(r, Failure) else type(r.value).__name__))
                if hooks.get("on_start_fired"):
                    hooks["on_start_fired"](tr, st, r)
                return None
            d.addBoth(fired)

        def do_stop(origin):
            c = tr.consumer
            st = dict(t=w.clock.seconds(), origin=origin, idx=len(log), raised=None, returned=None,
                      calls_before=len(tr.calls))
            tr.stops.append(st)
            log.append(("stop_call", w.clock.seconds(), origin))
            try:
                st["value"] = c.stop()
                st["returned"] = w.clock.seconds()
            except Exception as e:
                import traceback
                st["raised"] = type(e).__name__
                st["traceback"] = traceback.format_exc(limit=6)[-700:]
            st["ret_idx"] = len(log)
            log.append(("stop_returned", w.clock.seconds(), st["raised"]))

        def do_shutdown(origin):
            c = tr.consumer
            sh = dict(t=w.clock.seconds(), origin=origin, idx=len(log), fires=[], raised=None)
            tr.shutdowns.append(sh)
            log.append(("shutdown_call", w.clock.seconds(), origin))
            try:
                d = c.shutdown()
            except Exception as e:
                sh["raised"] = type(e).__name__
                return

            def fired(r):
                sh["fires"].append((w.clock.seconds(), not isinstance(r, Failure),
                                    r if not isinstance(r, Failure) else type(r.value).__name__, len(log)))
                sh["committed_then"] = c.last_committed_offset
                sh["processed_then"] = c.last_processed_offset
                log.append(("shutdown_fired", w.clock.seconds(), not isinstance(r, Failure)))
                return None
            d.addBoth(fired)

        def do_commit(origin):
            c = tr.consumer
            cm = dict(t=w.clock.seconds(), origin=origin, idx=len(log), fires=[], lp=c.last_processed_offset)
            tr.commits.append(cm)
            log.append(("commit_call", w.clock.seconds(), origin))
            try:
                d = c.commit()
            except Exception as e:
                cm["raised"] = type(e).__name__
                return

            def fired(r):
                cm["fires"].append((w.clock.seconds(), not isinstance(r, Failure),
                                    r if not isinstance(r, Failure) else type(r.value).__name__))
                return None
            d.addBoth(fired)

        def do_restart(how):
            c = tr.consumer
            if c._start_d is not None:
                return  # still running: restart only applies to a stopped consumer
            if tr.stops:
                tr.stops[-1]["restarted"] = True
            if how == "committed" and cfg["group"]:
                arg = start_offset_arg(["committed"])
            elif how == "earliest":
                arg = start_offset_arg(["earliest"])
            elif how == "rewind":
                # the application goes back: an explicit offset at the start of what the log still holds
                lg_ = cl.log(TOPIC, PART)
                have = [o for o in lg_.offsets_from(0) if o >= lg_.log_start]
                arg = have[0] if have else 0
            else:
                lp = c.last_processed_offset
                arg = (lp + 1) if lp is not None else start_offset_arg(sc["start"])
            do_start(arg, "restart:" + how)

        tr.do = dict(start=do_start, stop=do_stop, shutdown=do_shutdown, commit=do_commit, restart=do_restart)
        do_start(start_offset_arg(sc["start"]), "initial")
        for (t, n, magic, codec) in sc["appends"]:
            def app(n=n, magic=magic, codec=codec):
                lg = cl.log(TOPIC, PART)
                offs = list(range(lg.next_offset, lg.next_offset + n))
                for o in offs:
                    w.truth[o] = (rec_key(o), rec_value(o, 12))
                cl.append_records(TOPIC, PART, [(rec_key(o), rec_value(o, 12), 2000 + o) for o in offs], magic=magic,
                                  codec=codec)
            w.clock.labelled(base - w.clock.seconds() + t, "srv.append", app)
        for ev in sc["events"]:
            if ev[1] == "move":
                w.clock.labelled(base - w.clock.seconds() + ev[0], "fault.move_leader", cl.move_leader, TOPIC, PART, ev[2])
            elif ev[1] == "stop_broker":
                w.clock.labelled(base - w.clock.seconds() + ev[0], "fault.stop_broker", cl.stop_broker, ev[2])
            elif ev[1] == "start_broker":
                w.clock.labelled(base - w.clock.seconds() + ev[0], "fault.start_broker", cl.start_broker, ev[2])
            elif ev[1] == "truncate":
                def trunc(o=ev[2]):
                    cl.log(TOPIC, PART).truncate_before(o)
                    cl.history.append(dict(t=w.clock.seconds(), api="_log_truncated", offset=o))
                w.clock.labelled(base - w.clock.seconds() + ev[0], "fault.truncate", trunc)
        for a in sc["actions"]:
            fn = {"stop": lambda: do_stop("outside"), "shutdown": lambda: do_shutdown("outside"),
                  "commit": lambda: do_commit("outside")}.get(a[1])
            if a[1] == "restart":
                fn = (lambda how=a[2]: do_restart(how))
            if a[1] == "commit_if_running":
                # an application that keeps asking for commits, but only of a consumer it has not stopped
                fn = (lambda: do_commit("outside") if tr.consumer._start_d is not None and not tr.stops else None)
            if fn is not None:
                w.clock.labelled(base - w.clock.seconds() + a[0], "call." + a[1], guard(fn, tr))
        mark = [len(log)]

        def quiesce():
            if len(log) != mark[0]:
                log.append(("quiesce", w.clock.seconds()))
                mark[0] = len(log)
            if "quiesce" in hooks:
                hooks["quiesce"](tr)
        w.clock.hooks.append(quiesce)
        if crash_after_write is not None:
            count = [0]

            def on_write(conn, data):
                count[0] += 1
                if count[0] == crash_after_write:
                    tr.crashed_at = w.clock.seconds()
                    raise_crash[0] = True
            raise_crash = [False]
            w.net.write_hooks.append(on_write)
            stop_fn = lambda: raise_crash[0]
        else:
            stop_fn = None
        if hooks.get("until"):
            stop_fn = (lambda: hooks["until"](tr))
        tr.horizon = base + sc["horizon"] + 40.0
        try:
            w.run(until=tr.horizon, max_steps=150000, stop=stop_fn)
        except Exception as e:
            tr.capped = True
            tr.cap_reason = repr(e)
            tr.spin = find_spin(tr)
        tr.end_state = snapshot(tr)
        if hooks.get("finish"):
            hooks["finish"](tr)
        traps.flush()
    tr.unhandled = traps.unhandled
    tr.second_firings = traps.second_firings
    tr.logged = traps.errors_logged
    return tr


def find_spin(tr):
    """The event cap was hit: is the consumer re-sending one and the same fetch (same offset, same size), each answered
    at once with the same record data, without virtual time passing?  Returns a description or None."""
    fetches = [e for e in tr.cluster.history if e.get("api") == "Fetch" and "req" in e]
    tail = fetches[-400:]
    if len(tail) < 400:
        return None
    try:
        keys = set()
        for e in tail:
            p = e["req"]["topics"][0]["partitions"][0]
            keys.add((p["offset"], p["max_bytes"], e.get("replied"), e.get("reply_len")))
    except Exception:
        return None
    if len(keys) != 1:
        return None
    (off, mb, replied, rlen) = list(keys)[0]
    if replied != "sent" or not rlen or tail[-1]["t"] - tail[0]["t"] > 1.0:
        return None
    return dict(offset=off, max_bytes=mb, reply_len=rlen, repeats=len(tail), span=tail[-1]["t"] - tail[0]["t"])


def report_spin(res, tr):
    """True if the aborted run was a consumer spinning on one fetch (reported as a violation of progress)."""
    sp = getattr(tr, "spin", None)
    if not sp:
        return False
    res.violate("progress/spinning-on-one-fetch", "the consumer sent the same fetch (offset %d, max_bytes %d) at least "
                "%d times in %.3f virtual seconds, each answered at once with the same %d bytes of record data: it "
                "neither delivers, nor grows its buffer, nor fails" % (sp["offset"], sp["max_bytes"], sp["repeats"],
                                                                       sp["span"], sp["reply_len"]))
    return True


def guard(fn, tr):
    def run():
        try:
            fn()
        except Exception as e:  # RestopError etc. are results, recorded by the do_* helpers where relevant
            tr.w.net.log.append(("action_raised", tr.w.clock.seconds(), type(e).__name__))
    return run


def snapshot(tr):
    c = tr.consumer
    w = tr.w
    calls = []
    for dc in w.clock.getDelayedCalls():
        f = dc.func
        lab = getattr(f, "sim_label", None)
        if lab is not None:
            calls.append(lab)
            continue
        owner = getattr(f, "__self__", None)
        calls.append("%s.%s" % (type(owner).__name__ if owner is not None else "", getattr(f, "__name__", repr(f))))
    return dict(t=w.clock.seconds(), delayed=calls, last_processed=c.last_processed_offset,
                last_committed=c.last_committed_offset, running=c._start_d is not None)


def consumer_delayed_calls(tr, consumer=None):
    """Delayed calls on the reactor that belong to the consumer (its retry/commit timers and looping call)."""
    c = consumer or tr.consumer
    out = []
    for dc in tr.w.clock.getDelayedCalls():
        f = dc.func
        owner = getattr(f, "__self__", None)
        if type(f).__name__ == "LoopingCall":
            # a LoopingCall schedules itself: the delayed call's function is the LoopingCall object
            if f is getattr(c, "_commit_looper", None) or getattr(getattr(f, "f", None), "__self__", None) is c:
                out.append("looping:" + getattr(getattr(f, "f", None), "__name__", "?"))
            continue
        if owner is c:
            out.append(getattr(f, "__name__", "?"))
        elif type(owner).__name__ == "LoopingCall" and owner is getattr(c, "_commit_looper", None):
            out.append("commit_looper")
        elif type(owner).__name__ == "LoopingCall" and getattr(owner, "f", None) is not None and \
                getattr(owner.f, "__self__", None) is c:
            out.append("looping:" + getattr(owner.f, "__name__", "?"))
    return out


def requests(tr, api, since_idx=None):
    return [e for e in tr.cluster.history if e.get("api") == api and "req" in e]


def truth(tr):
    """offset -> (key, value) for every record the log has ever held."""
    return tr.w.truth

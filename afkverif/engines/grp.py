"""Group engine: 1-4 real ConsumerGroup members, each with its own KafkaClient, against simkafka's coordinator.

Everything is observed from outside: requests are stamped where the member's client issues them (harness-side
wrappers on the client instance), their outcome where the reply reaches the client, partition consumers where
afkak._group constructs them (the module's Consumer name is replaced by a recording subclass for the duration of a
run), processor calls in the processor the harness supplies.  No /repo hook is used.
"""
import random

from twisted.internet.defer import Deferred
from twisted.python.failure import Failure

from .. import refproto as R
from ..simkafka import PartitionLog
from ..traps import Traps
from .world import World

GROUP = "grp"
GROUP_APIS = ("JoinGroup", "SyncGroup", "Heartbeat", "LeaveGroup")
LOOKUP_APIS = ("FindCoordinator", "Metadata")


class ProcessorBoom(Exception):
    pass


def rec_value(topic, part, k):
    return b"%s/%d#%d" % (topic.encode(), part, k)


def gen_scenario(seed, profile="rebalance"):
    rng = random.Random(seed)
    nb = rng.choice((1, 2, 3))
    topics = {"ga": rng.choice((1, 2, 3, 4, 6))}
    if rng.random() < 0.5:
        topics["gb"] = rng.choice((1, 2, 5))
    nm = rng.choice((1, 2, 2, 3, 4)) if profile != "single" else 1
    timing = dict(session=6000, hb=1000, initial=500, retry=100, fatal=2000)
    members = []
    for i in range(nm):
        subs = ["ga"] if (rng.random() < 0.6 or "gb" not in topics) else rng.choice((["ga", "gb"], ["gb"], ["ga", "gb"]))
        procs = []
        for _ in range(8):
            r = rng.random()
            if r < 0.5:
                procs.append(["sync"])
            elif r < 0.95:
                procs.append(["async", rng.choice((0.0, 0.05, 0.4, 1.5))])
            else:
                procs.append(["sync"])
        start = 0.0 if i == 0 else round(rng.choice((0.0, 0.3, 2.0, 5.0, 9.0)), 3)
        stop = None
        kill = None
        r = rng.random()
        if profile == "rebalance":
            if r < 0.35:
                stop = round(start + rng.uniform(1.0, 14.0), 3)
            elif r < 0.45 and nm > 1:
                kill = round(start + rng.uniform(1.0, 10.0), 3)
        members.append(dict(name="m%d" % i, topics=subs, start=start, stop=stop, kill=kill, procs=procs,
                            commit_every_n=rng.choice((1, 2, 5, 100)), commit_every_ms=rng.choice((300, 1000, 5000)),
                            timing=dict(timing)))
    events = []
    t = 0.0
    for _ in range(rng.choice((2, 4, 8))):
        t += rng.choice((0.2, 1.0, 3.0))
        tp = rng.choice(sorted(topics))
        events.append([round(t, 3), "append", tp, rng.randrange(topics[tp]), rng.choice((1, 2, 5))])
    if profile == "rebalance":
        for _ in range(rng.choice((0, 1, 1, 2, 3))):
            r = rng.random()
            te = round(rng.uniform(1.0, 14.0), 3)
            if r < 0.35:
                events.append([te, "evict", rng.randrange(nm)])
            elif r < 0.55 and nb > 1:
                events.append([te, "move_coordinator", rng.randint(1, nb)])
            elif r < 0.8:
                events.append([te, "grow", rng.choice(sorted(topics))])
            elif r < 0.9:
                events.append([te, "reject_commits", rng.randrange(nm), rng.choice((22, 25, 27))])
            else:
                events.append([te, "silence_group_requests", rng.randrange(nm), rng.choice(("Heartbeat", "Heartbeat",
                                                                                           "SyncGroup"))])
    if profile == "rebalance" and rng.random() < 0.35:
        # commit replies that take a while, with records still arriving: a rebalance or stop then meets a member
        # whose consumer has a commit in flight and has processed further since
        who = rng.randrange(nm)
        t0_ = round(rng.uniform(0.5, 6.0), 3)
        events.append([t0_, "slow_commits", who, rng.choice((0.3, 0.6, 0.9))])
        tt = t0_
        for _ in range(rng.choice((6, 12))):
            tt += rng.choice((0.1, 0.25, 0.4))
            tp = rng.choice(sorted(topics))
            events.append([round(tt, 3), "append", tp, rng.randrange(topics[tp]), 1])
        events.append([round(tt - rng.uniform(0.0, 1.0), 3), "evict", rng.randrange(nm)])
    # (own stream) SyncGroup replies that take most of a heartbeat interval: a rebalance that was not started by a
    # failed heartbeat (a refused commit, a new member) then has heartbeat ticks falling inside the join/sync exchange
    rng2 = random.Random((seed * 16807) ^ 0x51055)
    if profile == "rebalance" and rng2.random() < 0.4:
        rej = [e for e in events if e[1] == "reject_commits"]
        who = rej[0][2] if rej else rng2.randrange(nm)
        t_s = rej[0][0] if rej else round(rng2.uniform(0.5, 8.0), 3)
        events.append([max(0.0, round(t_s - 0.05, 3)), "slow_sync", who, rng2.choice((0.6, 0.9))])
        if not rej:
            events.append([round(t_s + 0.2, 3), "reject_commits", who, rng2.choice((22, 25))])
            tt = t_s
            for _ in range(6):
                tt += rng2.choice((0.1, 0.25))
                tp = sorted(topics)[0]
                events.append([round(tt, 3), "append", tp, rng2.randrange(topics[tp]), 1])
    events.sort(key=lambda e: e[0])
    return dict(seed=seed, profile=profile, brokers=list(range(1, nb + 1)), topics=topics, members=members,
                events=events, faults=[], latency=rng.choice((0.0, 0.002, 0.02)), horizon=22.0,
                preload=rng.choice((0, 3, 8)), stored=rng.random() < 0.5, timeout=1.0)


class Trace(object):
    pass


class MemberRec(object):
    def __init__(self, spec):
        self.spec = spec
        self.name = spec["name"]
        self.client = None
        self.group = None
        self.reqs = []  # every request issued by this member's client
        self.calls = []  # processor calls
        self.consumers = []  # partition consumers constructed for it
        self.start_fires = []
        self.start_called = None
        self.stop_called = None
        self.stop_fires = []
        self.killed = None
        self.n_proc = 0

    def outstanding(self, apis=None):
        return [r for r in self.reqs if r["done"] is None and (apis is None or r["api"] in apis)]


def run_scenario(sc, hooks=None):
    """hooks: dict(quiesce=fn(tr), built=fn(tr), event=fn(tr, ev))"""
    import afkak._group as G
    from afkak import Consumer, ConsumerGroup
    hooks = hooks or {}
    random.seed(sc["seed"])
    rng = random.Random(sc["seed"] ^ 0x5bd1)
    w = World(sc["seed"], brokers=sc["brokers"], latency=sc["latency"])
    cl = w.cluster
    tr = Trace()
    tr.sc, tr.w, tr.cluster = sc, w, cl
    tr.events = []  # (seq, t, step, member, kind, data) in program order
    tr.members = {}
    tr.capped = False
    for name, n in sc["topics"].items():
        cl.add_topic(name, {p: sc["brokers"][p % len(sc["brokers"])] for p in range(n)})
        for p in range(n):
            if sc["preload"]:
                cl.log(name, p).append([(None, rec_value(name, p, k), 0) for k in range(sc["preload"])])
            if sc["stored"] and sc["preload"] > 2 and (p % 2 == 0):
                cl.offsets[(GROUP, name, p)] = (1, "")
    cl.coordinators[GROUP] = sc["brokers"][0]
    for f in sc["faults"]:
        cl.faults.add(f)
    tr.quirks = {}

    def metadata_quirks(ev):
        if not tr.quirks:
            return None
        now = w.clock.seconds()
        brokers, topics = cl.metadata_view(ev["req"]["topics"])
        out = []
        for (terr, name, parts) in topics:
            q = tr.quirks.get(name)
            if q is not None and now < q[0]:
                out.append((5, name, [p for p in parts if p[1] in q[1]]))
            else:
                out.append((terr, name, parts))
        return brokers, out
    cl.metadata_override = metadata_quirks
    by_client = {}

    def emit(member, kind, **data):
        ev = dict(seq=len(tr.events), t=w.clock.seconds(), step=w.clock.steps, member=member, kind=kind)
        ev.update(data)
        tr.events.append(ev)
        if "event" in hooks:
            hooks["event"](tr, ev)
        return ev

    tr.emit = emit
    srv_by_corr = {}

    def on_srv(ev):
        if "req" in ev:
            srv_by_corr[(ev["client_id"], ev["corr"])] = ev
    cl.on_event.append(on_srv)

    class RecConsumer(Consumer):
        def __init__(self, *a, **kw):
            Consumer.__init__(self, *a, **kw)
            m = by_client.get(id(kw.get("client", a[0] if a else None)))
            self._verif_rec = None
            if m is not None:
                c = dict(obj=self, topic=self.topic, partition=self.partition,
                         generation=kw.get("commit_generation_id"), member_id=kw.get("commit_consumer_id"),
                         t=w.clock.seconds(), step=w.clock.steps, member=m.name)
                self._verif_rec = c
                m.consumers.append(c)
                emit(m.name, "consumer_created", topic=self.topic, partition=self.partition,
                     generation=c["generation"], member_id=c["member_id"], cid=id(self))

    orig_consumer = G.Consumer
    G.Consumer = RecConsumer
    traps = Traps()
    tr.traps = traps
    try:
        with traps:
            for ms in sc["members"]:
                m = MemberRec(ms)
                tr.members[m.name] = m
                _setup_member(tr, m, w, cl, emit, by_client, srv_by_corr, rng, ConsumerGroup)
            base = w.clock.seconds()
            tr.base = base
            if "built" in hooks:
                hooks["built"](tr)
            for ms in sc["members"]:
                m = tr.members[ms["name"]]
                w.clock.labelled(ms["start"], "act.start." + m.name, m.do_start)
                if ms["stop"] is not None:
                    w.clock.labelled(ms["stop"], "act.stop." + m.name, m.do_stop)
                if ms["kill"] is not None:
                    w.clock.labelled(ms["kill"], "act.kill." + m.name, m.do_kill)
            for e in sc["events"]:
                w.clock.labelled(e[0], "ev." + e[1], _apply_event, tr, e)
            if "quiesce" in hooks:
                w.clock.hooks.append(lambda: hooks["quiesce"](tr))
            tr.horizon = base + sc["horizon"]
            try:
                w.run(until=tr.horizon, max_steps=sc.get("max_steps", 400000), stop=hooks.get("until") and
                      (lambda: hooks["until"](tr)))
            except Exception as e:
                tr.capped = True
                tr.cap_reason = repr(e)
            tr.end_t = w.clock.seconds()
            if "finish" in hooks:
                hooks["finish"](tr)
            w.clock.hooks[:] = []
            # cleanup
            for m in tr.members.values():
                if m.start_called is not None and m.stop_called is None and not m.start_fires:
                    try:
                        m.group.stop().addErrback(lambda f: None)
                    except Exception:
                        pass
            try:
                w.run(until=w.clock.seconds() + 3.0, max_steps=100000)
            except Exception:
                pass
            for m in tr.members.values():
                try:
                    m.client.close().addErrback(lambda f: None)
                except Exception:
                    pass
            try:
                w.run(until=w.clock.seconds() + 1.0, max_steps=100000)
            except Exception:
                pass
    finally:
        G.Consumer = orig_consumer
    tr.unhandled = traps.unhandled
    tr.second_firings = traps.second_firings
    tr.logged = traps.errors_logged
    tr.clock_errors = list(w.clock.errors)
    return tr


def _apply_event(tr, e):
    cl = tr.cluster
    kind = e[1]
    if kind == "append":
        _, _, topic, part, n = e
        if (topic, part) in cl.logs:
            lg = cl.log(topic, part)
            k0 = lg.next_offset
            cl.append_records(topic, part, [(None, rec_value(topic, part, k0 + k), 0) for k in range(n)])
    elif kind == "evict":
        m = tr.members["m%d" % e[2]]
        mid = m.group.member_id if m.group is not None else ""
        if mid:
            cl.evict(GROUP, mid)
            tr.emit(m.name, "evicted_by_script", member_id=mid)
    elif kind == "move_coordinator":
        cl.move_coordinator(GROUP, e[2])
        tr.emit(None, "coordinator_moved", node=e[2])
    elif kind == "grow":
        t = e[2]
        p = max(cl.topic_partitions[t]) + 1 + (3 if e[0] * 1000 % 2 else 0)
        node = sorted(cl.brokers)[p % len(cl.brokers)]
        cl.logs[(t, p)] = PartitionLog(t, p)
        cl.leaders[(t, p)] = node
        cl.replicas[(t, p)] = [node]
        cl.topic_partitions[t] = sorted(cl.topic_partitions[t] + [p])
        tr.emit(None, "topic_grew", topic=t, partition=p)
    elif kind == "foreign_join":
        cl.add_foreign_member(GROUP, e[2], [("consumer", bytes.fromhex(e[3]))])
        tr.emit(None, "foreign_member_joined", member_id=e[2])
    elif kind == "foreign_leave":
        cl.remove_foreign_member(GROUP, e[2])
        tr.emit(None, "foreign_member_left", member_id=e[2])
    elif kind == "silence_group_requests":
        m = tr.members["m%d" % e[2]]
        cl.faults.add(dict(api=e[3], client_id=m.name.encode(), nth=[0], after=tr.w.clock.seconds(),
                           action=dict(kind="silent", apply=False)))
    elif kind == "leaderless":
        # a partition without a leader for a while (an election in progress): metadata still lists it, with leader -1
        _, _, topic, part, dur = e
        if (topic, part) in cl.leaders and cl.leaders[(topic, part)] != -1:
            old_leader = cl.leaders[(topic, part)]
            cl.leaders[(topic, part)] = -1
            tr.emit(None, "partition_leaderless", topic=topic, partition=part)
            tr.w.clock.labelled(dur, "fault.leader_elected", cl.move_leader, topic, part, old_leader)
    elif kind == "expanding":
        # the topic is being expanded: for a while metadata answers carry LEADER_NOT_AVAILABLE for the topic and only
        # some of its partitions (the full list is what the cluster really has)
        _, _, topic, keep, dur = e
        tr.quirks[topic] = (tr.w.clock.seconds() + dur, keep)
        tr.emit(None, "topic_expanding", topic=topic, visible=keep)
    elif kind == "coordinator_failover":
        old = cl.coordinator_for(GROUP)
        new = e[2] if e[2] != old else [n for n in sorted(cl.brokers) if n != old][0]
        # group state does not survive the fail-over: members have to find the new coordinator and join afresh
        cl.groups.pop(GROUP, None)
        cl.move_coordinator(GROUP, new)
        for api in GROUP_APIS:
            cl.faults.add(dict(api=api, broker=old, action=dict(kind="silent", apply=False)))
        tr.emit(None, "coordinator_failed_over", old=old, new=new)
    elif kind == "slow_commits":
        m = tr.members["m%d" % e[2]]
        cl.faults.add(dict(api="OffsetCommit", client_id=m.name.encode(), nth=list(range(0, 12)), after=tr.w.clock.seconds(),
                           action=dict(kind="ok", delay=e[3])))
    elif kind == "slow_sync":
        m = tr.members["m%d" % e[2]]
        cl.faults.add(dict(api="SyncGroup", client_id=m.name.encode(), nth=[0, 1, 2], after=tr.w.clock.seconds(),
                           action=dict(kind="ok", delay=e[3])))
    elif kind == "reject_commits":
        m = tr.members["m%d" % e[2]]
        cl.faults.add(dict(api="OffsetCommit", client_id=m.name.encode(), nth=[0, 1], after=tr.w.clock.seconds(),
                           action=dict(kind="error", code=e[3])))


def _setup_member(tr, m, w, cl, emit, by_client, srv_by_corr, rng, ConsumerGroup):
    ms = m.spec
    sc = tr.sc
    client = w.client(clientId=m.name, timeout=int(sc["timeout"] * 1000))
    m.client = client
    by_client[id(client)] = m
    cid = m.name.encode()

    def note_request(request, via):
        try:
            req = R.parse_request(request)
        except Exception as e:  # pragma: no cover
            return dict(api="?", corr=-1, body={}, parse_error=repr(e))
        return dict(api=req["api_name"], corr=req["correlation_id"], body=req["body"])

    def track(info, d, via):
        r = dict(api=info["api"], corr=info["corr"], body=info["body"], t=w.clock.seconds(), step=w.clock.steps,
                 idx=len(w.net.log), done=None, via=via, member=m.name)
        m.reqs.append(r)
        emit(m.name, "req", api=r["api"], corr=r["corr"], r=r)

        def fired(result):
            ok = not isinstance(result, Failure)
            srv = srv_by_corr.get((cid, r["corr"]))
            err = None
            if srv is not None and srv.get("result") is not None and srv.get("replied") == "sent":
                res = srv["result"]
                if isinstance(res, dict):
                    err = res.get("error")
                elif isinstance(res, list) and res:
                    errs = [x.get("error", 0) for x in res if isinstance(x, dict)]
                    err = next((x for x in errs if x), 0)
            if srv is not None and (srv.get("action") or {}).get("kind") == "garbage":
                err = "malformed-reply"  # what the member decodes from it is its own affair
            r["done"] = dict(t=w.clock.seconds(), step=w.clock.steps, ok=ok,
                             failure=(type(result.value).__name__ if not ok else None), srv_error=err, srv=srv)
            emit(m.name, "req_done", api=r["api"], corr=r["corr"], ok=ok, failure=r["done"]["failure"],
                 srv_error=err, r=r)
            return result
        d.addBoth(fired)
        return d

    orig_unaware = client._send_broker_unaware_request

    def unaware(requestId, request, *a, **kw):
        info = note_request(request, "unaware")
        d = orig_unaware(requestId, request, *a, **kw)
        return track(info, d, "unaware")
    client._send_broker_unaware_request = unaware
    orig_mrtb = client._make_request_to_broker

    def mrtb(broker, requestId, request, *a, **kw):
        info = note_request(request, "broker")
        d = orig_mrtb(broker, requestId, request, *a, **kw)
        if info["api"] in LOOKUP_APIS:
            return d  # logged by the broker-unaware wrapper
        info["node"] = broker.node_id
        return track(info, d, "broker")
    client._make_request_to_broker = mrtb

    def processor(consumer, msgs):
        k = m.n_proc
        m.n_proc += 1
        beh = ms["procs"][k % len(ms["procs"])]
        rec = dict(member=m.name, cid=id(consumer), topic=consumer.topic, partition=consumer.partition,
                   offsets=[x.offset for x in msgs], values=[x.message.value for x in msgs], t=w.clock.seconds(),
                   step=w.clock.steps, beh=beh, done=None, generation=getattr(consumer, "commit_generation_id", None),
                   member_id=getattr(consumer, "commit_consumer_id", None))
        m.calls.append(rec)
        emit(m.name, "proc_begin", topic=rec["topic"], partition=rec["partition"], offsets=rec["offsets"],
             cid=rec["cid"], call=rec)

        def finish(result=None):
            # a Failure here is the consumer cancelling the call (it was stopped): the call is over for afkak
            cancelled = isinstance(result, Failure)
            rec["done"] = dict(t=w.clock.seconds(), step=w.clock.steps, cancelled=cancelled)
            emit(m.name, "proc_cancelled" if cancelled else "proc_end", topic=rec["topic"],
                 partition=rec["partition"], offsets=rec["offsets"], cid=rec["cid"], call=rec)
            return result
        if beh[0] == "sync":
            finish()
            return None
        if beh[0] == "fail":
            rec["failed"] = True
            finish()
            raise ProcessorBoom("processor failure %d" % k)
        d = Deferred()
        if beh[0] == "fail_async":
            def boom():
                if not d.called:
                    rec["failed"] = True
                    rec["done"] = dict(t=w.clock.seconds(), step=w.clock.steps, cancelled=False)
                    emit(m.name, "proc_end", topic=rec["topic"], partition=rec["partition"], offsets=[],
                         cid=rec["cid"], call=rec)
                    d.errback(ProcessorBoom("asynchronous processor failure %d" % k))
            d.addErrback(lambda f: (rec.__setitem__("done", rec["done"] or dict(t=w.clock.seconds(), step=w.clock.steps,
                                                                                  cancelled=True)), f)[1])
            w.clock.labelled(beh[1], "proc.fail." + m.name, boom)
            return d
        d.addBoth(finish)
        w.clock.labelled(beh[1], "proc.done." + m.name, lambda: (not d.called) and d.callback(None))
        return d
    tm = ms["timing"]
    kw = dict(auto_commit_every_n=ms["commit_every_n"], auto_commit_every_ms=ms["commit_every_ms"],
              fetch_max_wait_time=100, request_retry_init_delay=0.1, request_retry_max_delay=0.5)
    kw.update(ms.get("consumer_kwargs", {}))
    m.group = ConsumerGroup(client, GROUP, list(ms["topics"]), processor, consumer_kwargs=kw,
                            session_timeout_ms=tm["session"], heartbeat_interval_ms=tm["hb"],
                            initial_backoff_ms=tm["initial"], retry_backoff_ms=tm["retry"], fatal_backoff_ms=tm["fatal"])

    def do_start():
        m.start_called = dict(t=w.clock.seconds(), step=w.clock.steps)
        emit(m.name, "start")
        d = m.group.start()

        def fired(result):
            m.start_fires.append(dict(t=w.clock.seconds(), step=w.clock.steps, ok=not isinstance(result, Failure),
                                      value=result))
            emit(m.name, "start_fired", ok=not isinstance(result, Failure),
                 failure=(type(result.value).__name__ if isinstance(result, Failure) else None))
        d.addBoth(fired)
    m.do_start = do_start

    def do_stop():
        if m.stop_called is not None or m.start_called is None or m.start_fires:
            return
        m.stop_called = dict(t=w.clock.seconds(), step=w.clock.steps, raised=None)
        emit(m.name, "stop")
        try:
            d = m.group.stop()
        except Exception as e:
            m.stop_called["raised"] = repr(e)
            emit(m.name, "stop_raised", error=repr(e))
            return

        def fired(result):
            m.stop_fires.append(dict(t=w.clock.seconds(), step=w.clock.steps, ok=not isinstance(result, Failure),
                                     value=result))
            emit(m.name, "stop_fired", ok=not isinstance(result, Failure))
        d.addBoth(fired)
    m.do_stop = do_stop

    def do_kill():
        # the member's process hangs: from now on nothing it sends is answered
        m.killed = dict(t=w.clock.seconds(), step=w.clock.steps)
        cl.faults.rules.insert(0, dict(client_id=cid, action=dict(kind="silent", apply=False), _seen=0))
        emit(m.name, "killed")
    m.do_kill = do_kill


# -- helpers for the oracles --------------------------------------------------------------------------------

def _belongs(tr, obj):
    """Name of the member an object belongs to (its group, client, broker client or partition consumer)."""
    if obj is None:
        return None
    for name, m in tr.members.items():
        if obj is m.group or obj is m.client or obj is getattr(m.group, "_heartbeat_looper", None):
            return name
        clients = getattr(m.client, "clients", None) or {}
        if any(obj is b for b in clients.values()):
            return name
        for c in m.consumers:
            if obj is c["obj"] or obj is getattr(c["obj"], "_commit_looper", None):
                return name
    return None


def member_delayed_calls(tr, m):
    """Delayed calls attributable to member m: list of (kind, dc).  Kinds: group.<method>, heartbeat_looper,
    consumer.<method>, consumer_looper, client.<name>, closure.<name> (a function closing over something of m),
    afkak_client_unattributed (a delayed call created in afkak/client.py or afkak/brokerclient.py that carries no
    reference to any member: counted for every member, which can only hide a wedge, never invent one)."""
    out = []
    consumers = dict((id(c["obj"]), c["obj"]) for c in m.consumers)
    for dc in tr.w.clock.getDelayedCalls():
        f = dc.func
        owner = getattr(f, "__self__", None)
        name = getattr(f, "__name__", type(f).__name__)
        if f is getattr(m.group, "_heartbeat_looper", None):
            out.append(("heartbeat_looper", dc))
            continue
        if any(f is getattr(c, "_commit_looper", None) for c in consumers.values()):
            out.append(("consumer_looper", dc))
            continue
        who = _belongs(tr, f) or _belongs(tr, owner)
        if who is not None:
            if who != m.name:
                continue
            if owner is m.group:
                out.append(("group." + name, dc))
            elif owner is not None and id(owner) in consumers:
                out.append(("consumer." + name, dc))
            else:
                out.append(("client." + name, dc))
            continue
        refs = set()
        for c in (getattr(f, "__closure__", None) or ()):
            try:
                v = c.cell_contents
            except ValueError:
                continue
            w_ = _belongs(tr, v)
            if w_ is not None:
                refs.add(w_)
        if refs:
            if m.name in refs:
                out.append(("closure." + name, dc))
            continue
        code = getattr(f, "__code__", None)
        fn = code.co_filename if code is not None else ""
        if _afkak_client_file(fn) or _defer_later_from_afkak(owner):
            out.append(("afkak_client_unattributed", dc))
    return out


def _afkak_client_file(fn):
    return fn.endswith("afkak/client.py") or fn.endswith("afkak/brokerclient.py")


def _defer_later_from_afkak(owner):
    """task.deferLater(reactor, delay, <function defined in afkak/client.py or brokerclient.py>): the delayed call's
    function is Deferred.callback; the afkak function sits in the closure of the Deferred's first callback."""
    cbs = getattr(owner, "callbacks", None)
    if not cbs:
        return False
    for pair in cbs:
        try:
            fn = pair[0][0]
        except Exception:
            continue
        for c in (getattr(fn, "__closure__", None) or ()):
            try:
                v = c.cell_contents
            except ValueError:
                continue
            code = getattr(v, "__code__", None)
            if code is not None and _afkak_client_file(code.co_filename):
                return True
    return False

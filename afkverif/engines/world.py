"""A virtual world: clock + network + cluster + helpers to build real afkak objects in it."""
import random

from ..simkafka import Cluster
from ..simnet import SimClock, SimNet


class World(object):
    def __init__(self, seed, brokers=(1,), latency=0.0, chunk="whole"):
        self.seed = seed
        self.rng = random.Random(seed)
        self.clock = SimClock()
        self.net = SimNet(self.clock, self.rng, max_latency=latency, chunk_mode=chunk)
        self.cluster = Cluster(self.clock, self.net, self.rng)
        for b in brokers:
            self.cluster.add_broker(b)
        self.clients = []

    def bootstrap_hosts(self):
        return ["%s:%d" % (b.host, b.port) for b in self.cluster.brokers.values()]

    def client(self, hosts=None, retry=None, **kw):
        from afkak import KafkaClient
        if retry is None:
            def retry(n):
                return min(0.05 * n, 1.0)
        kw.setdefault("timeout", 5000)
        kw.setdefault("enable_protocol_version_discovery", False)
        c = KafkaClient(hosts or self.bootstrap_hosts(), reactor=self.clock, endpoint_factory=self.net,
                        retry_policy=retry, **kw)
        self.clients.append(c)
        return c

    def run(self, until=None, max_steps=200000, stop=None):
        return self.clock.run(until=until, max_steps=max_steps, stop=stop)

"""Producer engine: the real Producer -> KafkaClient -> broker clients -> codec
against the simulated cluster.  Shared by C01, C09, C19 (and C04/C18 e2e)."""
import random

from twisted.python.failure import Failure

from .. import refproto as R
from ..traps import Traps
from .world import World

ERR_CODES = (3, 5, 6, 7, 10, 19, 20, 2, -1, 87)


def gen_scenario(seed, profile="general"):
    rng = random.Random(seed)
    nb = rng.choice((1, 2, 2, 3, 4))
    brokers = list(range(1, nb + 1))
    topics = {}
    for ti in range(rng.choice((1, 1, 2, 3))):
        topics["t%d" % ti] = {p: rng.choice(brokers) for p in range(rng.choice((1, 2, 3, 4)))}
    batched = rng.random() < (0.5 if profile == "general" else 1.0 if profile == "batch" else 0.5)
    cfg = dict(
        acks=rng.choice((1, 1, -1, 0)),
        codec=rng.choice((0, 0, 1)),
        max_req_attempts=rng.choice((1, 2, 3, 3, 5)),
        retry_interval=rng.choice((0.25, 0.1, 1.0)),
        partitioner=rng.choice(("rr", "rr", "hashed")),
        batch_send=batched,
        batch_every_n=rng.choice((0, 2, 3, 5, 10)) if batched else None,
        batch_every_b=rng.choice((0, 40, 200, 5000)) if batched else None,
        batch_every_t=rng.choice((None, 0.5, 2.0, 5.0)) if batched else None,
        discovery=rng.random() < 0.4,
        timeout=rng.choice((1.0, 3.0)),
    )
    if batched and not cfg["batch_every_n"] and not cfg["batch_every_b"] and not cfg["batch_every_t"]:
        cfg["batch_every_n"] = 3
    sends = []
    t = 0.0
    nsend = rng.randint(2, 10)
    for s in range(nsend):
        t += rng.choice((0, 0, 0, 0.01, 0.05, 0.3, 1.0, 3.0))
        topic = rng.choice(sorted(topics)) if rng.random() > 0.04 else "nosuch"
        nm = rng.choice((1, 1, 1, 2, 3))
        msgs = []
        for j in range(nm):
            r = rng.random()
            if r < 0.08:
                msgs.append(None)
            elif r < 0.14:
                msgs.append("")
            elif r < 0.2:
                msgs.append("L%d" % rng.choice((300, 2000, 9000)))
            else:
                msgs.append("f%d" % rng.randint(0, 30))
        key = "k" if rng.random() > 0.06 or cfg["partitioner"] == "hashed" else None
        if key is None:
            # without a key the values must identify the send: no null / empty value here
            msgs = [m if m not in (None, "") else "f%d" % rng.randint(0, 30) for m in msgs]
        cancel = round(rng.choice((0, 0.001, 0.05, 0.4, 2.0)), 4) if rng.random() < 0.12 else None
        sends.append(dict(s=s, t=round(t, 4), topic=topic, key=key, msgs=msgs, cancel=cancel))
    if batched and rng.random() < 0.3:
        # one or two sends the producer has to refuse, among the others
        for _ in range(rng.choice((1, 1, 2))):
            at = rng.randrange(len(sends) + 1)
            tt = sends[at - 1]["t"] if at > 0 else 0.0
            sends.insert(at, dict(s=100 + len(sends), t=tt, topic=rng.choice(sorted(topics)), key="k",
                                  msgs=rng.choice((["L300", "BAD"], ["f1", "f2", "BAD"], ["L2000", "BAD", "f3"], ["BAD"])),
                                  cancel=None))
    stop = round(rng.uniform(0, t + 2.0), 4) if rng.random() < (0.25 if profile != "batch" else 0.35) else None
    faults = []
    nf = rng.choice((0, 0, 1, 2, 3, 5)) if profile != "nofault" else 0
    for _ in range(nf):
        nth = rng.randint(0, 6)
        r = rng.random()
        if r < 0.25:
            act = dict(kind="error", code=rng.choice(ERR_CODES))
        elif r < 0.6:
            tp = rng.choice([(tn, p) for tn in topics for p in topics[tn]])
            act = dict(kind="ok", perr={"%s/%d" % tp: rng.choice(ERR_CODES)})
        elif r < 0.75:
            act = dict(kind="silent", apply=rng.random() < 0.5)
        elif r < 0.9:
            act = dict(kind="drop", apply=rng.random() < 0.5)
        else:
            act = dict(kind="ok", delay=rng.choice((0.2, cfg["timeout"] * 0.9, cfg["timeout"] * 1.2)))
        faults.append(dict(api="Produce", nth=[nth], broker=rng.choice(brokers + [None]), action=act))
    if rng.random() < 0.1 and profile != "nofault":
        faults.append(dict(api="Produce", topic=rng.choice(sorted(topics)), action=dict(kind="error", code=rng.choice(
            (6, 7, 19))), until=round(rng.uniform(5, 40), 2)))
    events = []
    if profile != "nofault":
        for _ in range(rng.choice((0, 0, 1, 2))):
            tn = rng.choice(sorted(topics))
            p = rng.choice(sorted(topics[tn]))
            events.append([round(rng.uniform(0, t + 3), 4), "move", tn, p, rng.choice(brokers)])
        if rng.random() < 0.15 and nb > 1:
            b = rng.choice(brokers)
            t0 = round(rng.uniform(0, t + 2), 4)
            events.append([t0, "stop", b])
            events.append([round(t0 + rng.choice((0.5, 3.0, 8.0)), 4), "start", b])
        elif rng.random() < 0.2:
            # a leader that is unreachable from the start for longer than the client timeout
            b = rng.choice(brokers)
            events.append([0.0, "stop", b])
            events.append([round(rng.choice((cfg["timeout"] * 1.5, cfg["timeout"] * 4, 30.0)), 4), "start", b])
    if profile == "general" and rng.random() < 0.08:
        events.append([round(rng.uniform(0, t + 2), 4), "close_client"])
    table = None
    if cfg["discovery"]:
        table = [[0, 0, rng.choice((2, 3, 7))], [1, 0, rng.choice((2, 3, 11))], [2, 0, 1], [3, 0, 5], [18, 0, 2]]
    if profile == "mixed":
        # one batch spread over several leaders; the first attempts meet per-broker / per-partition failures and the
        # retry may meet a leader that has gone away (a whole-call failure)
        nb = rng.choice((2, 3))
        brokers = list(range(1, nb + 1))
        np_ = rng.choice((2, 3, 4))
        topics = {"t0": {p: brokers[p % nb] for p in range(np_)}}
        nsend = rng.choice((np_, np_ + 1, 2 * np_))
        cfg.update(batch_send=True, batch_every_n=sum(1 for _ in range(nsend)), batch_every_b=0, batch_every_t=None,
                   partitioner="rr", max_req_attempts=rng.choice((3, 4, 5)), acks=rng.choice((1, -1, 0)))
        sends = [dict(s=i, t=0.0, topic="t0", key="k", msgs=["f%d" % i], cancel=None) for i in range(nsend)]
        cfg["batch_every_n"] = nsend
        stop = None
        faults = []
        victim = rng.choice(brokers)
        first = rng.choice(("error", "error", "perr", "silent", "drop"))
        if first == "error":
            faults.append(dict(api="Produce", broker=victim, nth=[0], action=dict(kind="error", code=rng.choice(ERR_CODES))))
        elif first == "perr":
            vp = rng.choice([p for p in topics["t0"] if topics["t0"][p] == victim] or [0])
            faults.append(dict(api="Produce", broker=victim, nth=[0],
                               action=dict(kind="ok", perr={"t0/%d" % vp: rng.choice(ERR_CODES)})))
        else:
            faults.append(dict(api="Produce", broker=victim, nth=[0], action=dict(kind=first, apply=rng.random() < 0.5)))
        if rng.random() < 0.4:
            faults.append(dict(api="Produce", broker=victim, nth=[1], action=dict(kind="error", code=rng.choice(ERR_CODES))))
        events = []
        if rng.random() < 0.5:
            t0 = round(rng.choice((0.05, 0.2, cfg["timeout"] + 0.05)), 4)
            events.append([t0, "stop", victim])
            events.append([round(t0 + rng.choice((0.3, 2.0, 10.0)), 4), "start", victim])
        if rng.random() < 0.3:
            events.append([round(rng.choice((0.01, 0.3, cfg["timeout"] + 0.1, cfg["timeout"] + cfg["retry_interval"] + 0.1)), 4),
                           "close_client"])
        if cfg["acks"] == 0:
            # without replies only a request that cannot be handed to its connection fails: the victim is already
            # unreachable (but still named by the cached metadata) when the batch goes out, and returns later
            faults = []
            events = [[0.02, "stop", victim], [round(0.1 + rng.choice((0.5, cfg["timeout"] + 0.3, 2 * cfg["timeout"] + 1.0)), 4),
                                              "start", victim]]
            for sd_ in sends:
                sd_["t"] = 0.1
        t = 0.0
    if profile == "down":
        # a leader the cached metadata still names has become unreachable for good (connections refused): every
        # send routed to it must still complete, by failing within its attempts
        nb = rng.choice((2, 3))
        brokers = list(range(1, nb + 1))
        np_ = rng.choice((2, 3, 4))
        topics = {"t0": {p: brokers[p % nb] for p in range(np_)}}
        victim = rng.choice(brokers)
        cfg.update(acks=rng.choice((0, 0, 1)), max_req_attempts=rng.choice((1, 2, 3)), retry_interval=0.1,
                   partitioner="rr", timeout=1.0, discovery=False)
        nsend = rng.choice((np_, np_ + 2, 2 * np_))
        sends = [dict(s=i, t=round(0.05 + 0.01 * i, 4), topic="t0", key="k", msgs=["f%d" % i], cancel=None)
                 for i in range(nsend)]
        stop = None
        faults = []
        events = [[0.01, "stop", victim]]
        table = None
        t = 0.2
    if profile == "lookupfail":
        # one batch: a send to a topic whose partition lookup keeps failing, cancelled while the lookup is pending,
        # beside ordinary sends
        nb = rng.choice((1, 2))
        brokers = list(range(1, nb + 1))
        topics = {"t0": {p: brokers[p % nb] for p in range(rng.choice((1, 2)))}}
        k = rng.choice((2, 3, 4))
        pos = rng.randrange(k)
        cfg.update(batch_send=True, batch_every_n=k, batch_every_b=0, batch_every_t=None, acks=1, partitioner="rr",
                   max_req_attempts=rng.choice((2, 3, 5)), retry_interval=rng.choice((0.1, 0.25)), discovery=False)
        sends = []
        for i in range(k):
            if i == pos:
                sends.append(dict(s=i, t=0.0, topic="nosuch", key="k", msgs=["f%d" % i],
                                  cancel=rng.choice((0.0, 0.001, 0.03, 0.12, 0.3))))
            else:
                sends.append(dict(s=i, t=0.0, topic="t0", key="k", msgs=["f%d" % i], cancel=None))
        stop = None
        faults = []
        events = []
        table = None
        t = 0.0
    if profile == "latecancel":
        # one batch whose reply is late; a send of that batch is cancelled while the request is in flight (that only
        # detaches the caller: its siblings, also those sharing its partition, get their results).  Or: the same
        # message sent twice (identical topic, key, messages), one copy cancelled before dispatch.
        nb = rng.choice((1, 2))
        brokers = list(range(1, nb + 1))
        np_ = rng.choice((1, 1, 2, 3))
        topics = {"t0": {p: brokers[p % nb] for p in range(np_)}}
        nsend = rng.choice((3, 4, 5, 6))
        dup = rng.random() < 0.45
        cfg.update(batch_send=True, batch_every_n=nsend, batch_every_b=0,
                   batch_every_t=rng.choice((None, None, 2.0)), partitioner=rng.choice(("hashed", "rr")),
                   acks=rng.choice((1, -1)), max_req_attempts=3, retry_interval=0.25, discovery=False,
                   timeout=3.0)
        sends = [dict(s=i, t=0.0, topic="t0", key="k", msgs=["f%d" % i], cancel=None) for i in range(nsend)]
        faults = [dict(api="Produce", nth=[0], broker=None, action=dict(kind="ok", delay=0.3))]
        if dup:
            # nsend + 1 sends, one of the two copies withdrawn at once; the last two arrive a moment later and
            # complete the batch (count threshold = nsend messages)
            j = rng.randrange(nsend - 2)
            copy = dict(sends[j], s=50, dup_of=j)
            # the later copy is withdrawn (mostly), or the earlier one, before the batch is taken
            which = copy if rng.random() < 0.7 else sends[j]
            which["cancel"] = rng.choice((0.0, 0.001, 0.01))
            sends.insert(j + 1, copy)
            sends[-1]["t"] = 0.05
            sends[-2]["t"] = 0.05
            if rng.random() < 0.3:
                faults = []
        else:
            for v in rng.sample(range(nsend - 1), rng.choice((1, 1, 2)) if nsend > 2 else 1):
                sends[v]["cancel"] = rng.choice((0.05, 0.1, 0.29))
        # a second wave once the first has resolved
        for i in range(rng.choice((0, nsend, nsend + 1))):
            sends.append(dict(s=100 + i, t=1.0, topic="t0", key="k", msgs=["f%d" % i], cancel=None))
        stop = None
        events = []
        table = None
        t = 1.0
    if profile == "timing" and random.Random((seed * 69069) ^ 0x2E20).random() < 0.15:
        cfg["retry_interval"] = 0.0  # (own stream) "retry at once" is a configuration like any other
    return dict(seed=seed, profile=profile, brokers=brokers, topics=topics, cfg=cfg, sends=sends, stop=stop,
                faults=faults, events=events, version_table=table,
                latency=0.0 if profile in ("timing", "batch", "latecancel") else rng.choice((0.0, 0.002, 0.03)),
                warm=profile in ("timing", "batch", "mixed", "down", "latecancel") or rng.random() < 0.5)


def payload_value(s, j, spec):
    """The bytes of message j of send s (unique, so a record names the send it came from)."""
    if spec is None:
        return None
    if spec == "":
        return b""
    if spec.startswith("L"):
        n = int(spec[1:])
        head = b"%d:%d:" % (s, j)
        return head + b"x" * max(0, n - len(head))
    return b"%d:%d:%s" % (s, j, spec.encode())


def send_key(s, kspec):
    return None if kspec is None else b"k%d" % s


class Trace(object):
    pass


def run_scenario(sc):
    from afkak import Producer
    from afkak.partitioner import HashedPartitioner, RoundRobinPartitioner
    random.seed(sc["seed"])
    w = World(sc["seed"], brokers=sc["brokers"], latency=sc["latency"])
    cl = w.cluster
    cfg = sc["cfg"]
    for t, parts in sc["topics"].items():
        cl.add_topic(t, {int(p): l for p, l in parts.items()})
    if sc["version_table"]:
        cl.version_table = [tuple(x) for x in sc["version_table"]]
    for f in sc["faults"]:
        cl.faults.add(f)
    tr = Trace()
    tr.sc = sc
    tr.w = w
    tr.cluster = cl
    tr.sends = {}
    tr.rejected = []
    tr.stop_called = None
    tr.stop_returned = None
    tr.stop_raised = None
    tr.stop_d_fired = []
    tr.client_closed = None
    tr.quiesce_checks = []
    log = w.net.log
    RoundRobinPartitioner.set_random_start(False)
    with Traps() as traps:
        client = w.client(timeout=int(cfg["timeout"] * 1000), enable_protocol_version_discovery=cfg["discovery"])
        tr.client = client
        if sc["warm"]:
            box = []
            client.load_metadata_for_topics(*sorted(sc["topics"])).addBoth(box.append)
            w.run(until=3.0)
            if cfg["discovery"]:
                client.get_api_version(0).addBoth(box.append)
                w.run(until=4.0)
        base = max(5.0, w.clock.seconds())
        w.run(until=base)
        kw = {}
        if cfg["batch_send"]:
            kw = dict(batch_send=True, batch_every_n=cfg["batch_every_n"], batch_every_b=cfg["batch_every_b"],
                      batch_every_t=cfg["batch_every_t"])
        producer = Producer(client, partitioner_class=HashedPartitioner if cfg["partitioner"] == "hashed"
                            else RoundRobinPartitioner, req_acks=cfg["acks"], max_req_attempts=cfg["max_req_attempts"],
                            retry_interval=cfg["retry_interval"], codec=cfg["codec"] or None, **kw)
        tr.producer = producer
        tr.base = base

        def do_send(sd):
            if tr.stop_called is not None:
                return  # sends after stop() are outside the statements checked here
            s = sd["s"]
            src = sd.get("dup_of", s)  # a send repeating another one word for word
            key = send_key(src, sd["key"])
            msgs = [payload_value(src, j, m) for j, m in enumerate(sd["msgs"])]
            if any(m == "BAD" for m in sd["msgs"]):
                # a send the producer must reject (a message that is not bytes, after some that are): it is not
                # queued and must leave no trace in the batching accounts
                msgs = [12345 if m == "BAD" else v for m, v in zip(sd["msgs"], msgs)]
                rj = dict(s=s, t=w.clock.seconds(), fires=[], raised=None)
                tr.rejected.append(rj)
                log.append(("send_rejected", w.clock.seconds(), s))
                try:
                    d_ = producer.send_messages(sd["topic"], key=key, msgs=msgs)
                    d_.addBoth(lambda r: rj["fires"].append((w.clock.seconds(), not isinstance(r, Failure),
                                                              type(getattr(r, "value", r)).__name__)))
                except Exception as e:
                    rj["raised"] = type(e).__name__
                return
            rec = dict(s=s, topic=sd["topic"], key=key, msgs=msgs, t=w.clock.seconds(), fires=[], cancelled=None,
                       d=None, after_stop=tr.stop_called is not None, step=w.clock.steps)
            tr.sends[s] = rec
            log.append(("send", w.clock.seconds(), s))
            d = producer.send_messages(sd["topic"], key=key, msgs=msgs)
            rec["d"] = d

            def fired(r):
                rec["fires"].append((w.clock.seconds(), not isinstance(r, Failure), r, w.clock.steps))
                log.append(("fire", w.clock.seconds(), s, not isinstance(r, Failure)))
                return None
            d.addBoth(fired)

        def do_cancel(s):
            rec = tr.sends.get(s)
            if rec is None or rec["fires"] or rec["cancelled"] is not None:
                return
            rec["cancelled"] = w.clock.seconds()
            log.append(("cancel", w.clock.seconds(), s))
            rec["d"].cancel()

        def do_stop():
            if tr.stop_called is not None:
                return
            tr.stop_called = w.clock.seconds()
            tr.stop_log_idx = len(log)
            log.append(("stop", w.clock.seconds()))
            try:
                d = producer.stop()
            except Exception as e:
                tr.stop_raised = repr(e)
                return
            tr.stop_returned = w.clock.seconds()
            tr.stop_unfired = [s for s, r in tr.sends.items() if not r["fires"]]
            log.append(("stop_returned", w.clock.seconds()))
            if d is not None:
                d.addBoth(lambda r: tr.stop_d_fired.append((w.clock.seconds(), repr(r)[:60])))

        for sd in sc["sends"]:
            w.clock.labelled(base - w.clock.seconds() + sd["t"], "call.send", do_send, sd)
            if sd["cancel"] is not None:
                w.clock.labelled(base - w.clock.seconds() + sd["t"] + sd["cancel"], "call.cancel", do_cancel, sd["s"])
        if sc["stop"] is not None:
            w.clock.labelled(base - w.clock.seconds() + sc["stop"], "call.stop", do_stop)
        for ev in sc["events"]:
            if ev[1] == "move":
                w.clock.labelled(base - w.clock.seconds() + ev[0], "fault.move_leader", cl.move_leader, ev[2], ev[3], ev[4])
            elif ev[1] == "stop":
                w.clock.labelled(base - w.clock.seconds() + ev[0], "fault.stop_broker", cl.stop_broker, ev[2])
            elif ev[1] == "close_client":
                def close_client():
                    tr.client_closed = w.clock.seconds()
                    log.append(("client_closed", w.clock.seconds()))
                    client.close()
                w.clock.labelled(base - w.clock.seconds() + ev[0], "call.close_client", close_client)
            else:
                w.clock.labelled(base - w.clock.seconds() + ev[0], "fault.start_broker", cl.start_broker, ev[2])

        mark = [len(log)]

        def quiesce():
            if len(log) != mark[0]:
                log.append(("quiesce", w.clock.seconds()))
                mark[0] = len(log)
            for fn in tr.quiesce_checks:
                fn()
        w.clock.hooks.append(quiesce)
        tr.capped = False
        last = max([sd["t"] for sd in sc["sends"]] + [sc["stop"] or 0] + [e[0] for e in sc["events"]])
        horizon = base + last + cfg["max_req_attempts"] * (cfg["timeout"] + cfg["retry_interval"] * 3 + 1.0) + \
            (cfg["batch_every_t"] or 0) * 2 + 45.0
        tr.horizon = horizon
        try:
            w.run(until=horizon, max_steps=150000)
        except Exception as e:
            tr.capped = True
            tr.cap_reason = repr(e)
        tr.end_calls = [str(getattr(dc.func, "sim_label", getattr(dc.func, "__qualname__", dc.func)))
                        for dc in w.clock.getDelayedCalls()]
        tr.unfired_at_horizon = sorted(s for s, r in tr.sends.items() if not r["fires"])
        # which of them are still waiting in the producer's batch queue (as opposed to taken out of it and lost)
        queued = list(getattr(producer, "_batch_reqs", ()) or ())
        tr.queued_at_horizon = sorted(s for s, r in tr.sends.items()
                                      if not r["fires"] and any(q.deferred is r["d"] for q in queued))
        if tr.stop_called is None:
            try:
                producer.stop()
            except Exception:
                pass
        if tr.client_closed is None:
            client.close()
        w.run(until=horizon + 10)
        traps.flush()
    tr.unhandled = traps.unhandled
    tr.second_firings = traps.second_firings
    tr.logged = traps.errors_logged
    return tr


def produce_requests(tr):
    """Produce requests in the order the client WROTE them: list of dict(idx (log index), t, conn, corr,
    payloads {(topic, partition): [(key, value)]}, version)."""
    out = []
    for idx, ev in enumerate(tr.w.net.log):
        if ev[0] != "c2s":
            continue
        try:
            pr = R.parse_request(ev[3][4:])
        except R.ParseError:
            continue
        if pr["api_name"] != "Produce":
            continue
        payloads = {}
        for t in pr["body"]["topics"]:
            for p in t["partitions"]:
                payloads[(t["topic"], p["partition"])] = [(m["key"], m["value"]) for m in
                                                         R.flatten_messages(p["messages"])]
        out.append(dict(idx=idx, t=ev[1], conn=ev[2], corr=pr["correlation_id"], payloads=payloads,
                        version=pr["api_version"], acks=pr["body"]["acks"]))
    return out


def send_of(key, value):
    """Which send does a record belong to?  (s, j) or None"""
    if key is not None and key.startswith(b"k"):
        try:
            s = int(key[1:])
        except ValueError:
            return None
        return s
    if value:
        try:
            return int(value.split(b":", 1)[0])
        except ValueError:
            return None
    return None


def delivered_responses(tr):
    """(conn id, corr id) -> delivery time of the complete response frame"""
    import struct
    out = {}
    for c in tr.w.net.conns:
        buf = bytearray()
        for t, data in c.s2c:
            buf.extend(data)
            while len(buf) >= 4:
                (n,) = struct.unpack_from(">i", buf, 0)
                if n < 0 or len(buf) < 4 + n:
                    break
                if n >= 4:
                    (cid,) = struct.unpack_from(">i", buf, 4)
                    out.setdefault((c.id, cid), t)
                del buf[:4 + n]
    return out

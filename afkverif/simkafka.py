"""A small, deterministic, sequential model of what a Kafka cluster promises,
sitting behind simnet and speaking refproto.  See DESIGN.md 2.3 / appendix B.

It is an oracle component: every frame it receives is parsed strictly, and
everything it does is appended to `history` for the monitors.
"""
import struct
import zlib

from . import refproto as R
from .simnet import FrameBuffer

ERR_NONE = 0
ERR_OFFSET_OUT_OF_RANGE = 1
ERR_UNKNOWN_TOPIC_OR_PARTITION = 3
ERR_LEADER_NOT_AVAILABLE = 5
ERR_NOT_LEADER = 6
ERR_REQUEST_TIMED_OUT = 7
ERR_COORDINATOR_LOAD_IN_PROGRESS = 14
ERR_COORDINATOR_NOT_AVAILABLE = 15
ERR_NOT_COORDINATOR = 16
ERR_ILLEGAL_GENERATION = 22
ERR_INCONSISTENT_GROUP_PROTOCOL = 23
ERR_UNKNOWN_MEMBER_ID = 25
ERR_INVALID_SESSION_TIMEOUT = 26
ERR_REBALANCE_IN_PROGRESS = 27
ERR_UNSUPPORTED_VERSION = 35


class Batch(object):
    """A stored batch: what one produce payload (or the log generator) wrote."""
    __slots__ = ("offsets", "records", "magic", "codec", "batch_id", "wrapper_ts", "hollow")

    def __init__(self, offsets, records, magic, codec, batch_id, wrapper_ts=None, hollow=False):
        self.hollow = hollow  # a compressed wrapper whose records were all compacted away: occupies its offset only
        self.offsets = list(offsets)
        self.records = list(records)  # (key, value, timestamp)
        self.magic = magic
        self.codec = codec
        self.batch_id = batch_id
        self.wrapper_ts = wrapper_ts


class PartitionLog(object):
    def __init__(self, topic, partition):
        self.topic = topic
        self.partition = partition
        self.batches = []
        self.log_start = 0
        self.next_offset = 0
        self._bid = 0

    def append(self, records, magic=0, codec=0):
        n = len(records)
        base = self.next_offset
        self._bid += 1
        self.batches.append(Batch(range(base, base + n), records, magic, codec, self._bid))
        self.next_offset = base + n
        return base

    def add_batch(self, offsets, records, magic=0, codec=0):
        """Log generator: explicit (ascending, possibly gappy) offsets."""
        assert len(offsets) == len(records) and offsets and offsets[0] >= self.next_offset
        self._bid += 1
        self.batches.append(Batch(offsets, records, magic, codec, self._bid))
        self.next_offset = offsets[-1] + 1

    def add_hollow(self, offset, magic=0, codec=1):
        """Log generator: a compressed wrapper at `offset` holding an empty message set."""
        assert offset >= self.next_offset
        self._bid += 1
        self.batches.append(Batch([offset], [], magic, codec or 1, self._bid, hollow=True))
        self.next_offset = offset + 1

    def skip_to(self, offset):
        """Leave a gap (compaction / transaction markers)."""
        assert offset >= self.next_offset
        self.next_offset = offset

    def truncate_before(self, offset):
        """Retention: drop whole batches below `offset`."""
        self.batches = [b for b in self.batches if b.offsets[-1] >= offset]
        self.log_start = max(self.log_start, offset)
        if self.batches and self.batches[0].offsets[0] < self.log_start and self.batches[0].codec == 0 \
                and not self.batches[0].hollow:
            b = self.batches[0]
            keep = [i for i, o in enumerate(b.offsets) if o >= self.log_start]
            b.offsets = [b.offsets[i] for i in keep]
            b.records = [b.records[i] for i in keep]

    def all_records(self):
        out = []
        for b in self.batches:
            for o, (k, v, ts) in zip(b.offsets, b.records):
                out.append((o, k, v, ts, b.magic, b.batch_id))
        return out

    def offsets_from(self, start):
        return [o for b in self.batches if not b.hollow for o in b.offsets if o >= start]

    def render(self, fetch_offset, fetch_version):
        """Message set for a fetch at fetch_offset (untruncated)."""
        want_magic1 = fetch_version >= 2
        entries = []
        for b in self.batches:
            if b.offsets[-1] < fetch_offset:
                continue
            magic = b.magic if want_magic1 else 0
            if b.hollow:
                entries.append(R.encode_wrapper([], b.offsets[0], magic=magic, codec=b.codec,
                                                timestamp=(0 if magic == 1 else None)))
            elif b.codec == 0:
                for o, (k, v, ts) in zip(b.offsets, b.records):
                    if o < fetch_offset:
                        continue
                    entries.append((o, R.encode_message(k, v, magic, 0, ts if magic == 1 else None)))
            else:
                if magic == 0:
                    inner = [(o, R.encode_message(k, v, 0, 0, None)) for o, (k, v, ts) in zip(b.offsets, b.records)]
                else:
                    first = b.offsets[0]
                    inner = [(o - first, R.encode_message(k, v, 1, 0, ts)) for o, (k, v, ts) in
                             zip(b.offsets, b.records)]
                wts = None
                if magic == 1:
                    wts = b.wrapper_ts if b.wrapper_ts is not None else max([r[2] or 0 for r in b.records] + [0])
                # every third stored batch was compressed as a multi-member gzip stream (RFC 1952 2.2: a reader
                # treats the members as one)
                nmem = 2 if (b.batch_id % 3 == 0 and len(inner) >= 2) else 1
                entries.append(R.encode_wrapper(inner, b.offsets[-1], magic=magic, codec=b.codec, timestamp=wts,
                                                members=nmem))
        return R.encode_message_set(entries)


class Action(object):
    """What the fault plan decided for one request."""

    def __init__(self, kind="ok", code=0, delay=0.0, apply=None, perr=None, garbage=None):
        self.kind = kind  # ok | error | silent | drop | garbage
        self.code = code
        self.delay = delay
        self.apply = (kind in ("ok",)) if apply is None else apply
        self.perr = perr or {}  # (topic, partition) -> error code (not applied for those)
        self.garbage = garbage

    def applies(self):
        """Does the request take effect on the cluster state?"""
        return self.kind == "ok" or (self.kind in ("silent", "drop") and self.apply)

    def as_json(self):
        return dict(kind=self.kind, code=self.code, delay=self.delay, apply=self.apply,
                    perr={"%s/%s" % k: v for k, v in self.perr.items()})


OK = Action()


class FaultPlan(object):
    """Ordered rules; first match with remaining budget wins.

    rule = dict(api=<name or None>, broker=<node or None>, topic=<name or None>, nth=<list of occurrence
                indexes or None for all>, until=<virtual time or None>, action=<dict for Action(...)>)
    Occurrences are counted per rule over the requests matching its (api, broker, topic) filter.
    """

    def __init__(self, rules=None, stop_time=None):
        self.rules = []
        self.stop_time = stop_time
        for r in rules or []:
            self.add(r)
        self.fired = []

    def add(self, rule):
        r = dict(rule)
        r["_seen"] = 0
        self.rules.append(r)

    def decide(self, ev):
        if self.stop_time is not None and ev["t"] >= self.stop_time:
            return OK
        for r in self.rules:
            if r.get("api") is not None and r["api"] != ev["api"]:
                continue
            if r.get("broker") is not None and r["broker"] != ev["broker"]:
                continue
            if r.get("topic") is not None and r["topic"] not in ev.get("topics", ()):
                continue
            if r.get("group") is not None and r["group"] != ev["req"].get("group"):
                continue
            if r.get("corr") is not None and ev["corr"] not in r["corr"]:
                continue
            if r.get("owner") is not None and r["owner"] != ev.get("owner"):
                continue
            if r.get("client_id") is not None and r["client_id"] != ev.get("client_id"):
                continue
            if r.get("until") is not None and ev["t"] >= r["until"]:
                continue
            if r.get("after") is not None and ev["t"] < r["after"]:
                continue
            n = r["_seen"]
            r["_seen"] = n + 1
            if r.get("nth") is not None and n not in r["nth"]:
                continue
            a = dict(r["action"])
            perr = a.pop("perr", None)
            if perr:
                perr = {(k.rsplit("/", 1)[0], int(k.rsplit("/", 1)[1])): v for k, v in perr.items()} \
                    if not isinstance(next(iter(perr)), tuple) else perr
            act = Action(perr=perr, **a)
            self.fired.append((ev["t"], ev["api"], ev["broker"], act.kind, act.code))
            return act
        return OK


class Broker(object):
    def __init__(self, cluster, node_id, host, port):
        self.cluster = cluster
        self.node_id = node_id
        self.host = host
        self.port = port
        self.up = True
        self.conns = set()
        self.api_versions = "table"  # table | close | silent | error35 | stall
        self.version_table = None  # None = cluster default
        self.stalled = []

    def release_stalled(self):
        """End a stall: answer the ApiVersions requests held so far, answer later ones at once."""
        self.api_versions = "table"
        held, self.stalled = self.stalled, []
        for ev, reply, table in held:
            ev["result"] = dict(error=0, versions=table)
            reply(R.resp_api_versions(ev["corr"], 0, table))

    def on_connect(self, conn):
        bc = BrokerConn(self, conn)
        self.conns.add(bc)
        return bc


class BrokerConn(object):
    def __init__(self, broker, conn):
        self.broker = broker
        self.conn = conn
        self.fb = FrameBuffer()

    def data_received(self, conn, data):
        try:
            frames = self.fb.feed(data)
        except ValueError as e:
            self.broker.cluster.bad_frames.append(dict(t=conn.clock.seconds(), broker=self.broker.node_id,
                                                       conn=conn.id, error=str(e), frame=b""))
            conn.server_close(clean=False)
            return
        for f in frames:
            self.broker.cluster.handle(self.broker, self, f)

    def connection_closed(self, conn):
        self.broker.conns.discard(self)
        self.broker.cluster.on_conn_closed(self)


DEFAULT_VERSION_TABLE = [(0, 0, 2), (1, 0, 3), (2, 0, 1), (3, 0, 2), (8, 0, 2), (9, 0, 2), (10, 0, 0), (11, 0, 1),
                         (12, 0, 0), (13, 0, 0), (14, 0, 0), (15, 0, 0), (16, 0, 0), (17, 0, 0), (18, 0, 0)]


class Member(object):
    def __init__(self, member_id, session_timeout, protocols, conn_id):
        self.member_id = member_id
        self.session_timeout = session_timeout
        self.protocols = protocols  # [(name, metadata)]
        self.conn_id = conn_id
        self.session_dc = None
        self.join_reply = None  # held JoinGroup reply callback
        self.sync_reply = None  # held SyncGroup reply callback
        self.assignment = b""
        self.joined_this_round = False
        self.foreign = False  # scripted member of another client library: joins every round, never times out


class Group(object):
    def __init__(self, name):
        self.name = name
        self.state = "Empty"
        self.generation = 0
        self.members = {}  # member_id -> Member (insertion order = join order)
        self.leader = None
        self.protocol = None
        self.rebalance_dc = None
        self.next_member = 0


class Cluster(object):
    def __init__(self, clock, net, rng):
        self.clock = clock
        self.net = net
        self.rng = rng
        self.brokers = {}
        self.logs = {}  # (topic, partition) -> PartitionLog
        self.topic_partitions = {}  # topic -> [partitions]
        self.leaders = {}  # (topic, partition) -> node id or -1
        self.replicas = {}
        self.topic_errors = {}  # topic -> error code served in metadata
        self.partition_errors = {}
        self.coordinators = {}  # group -> node id
        self.offsets = {}  # (group, topic, partition) -> (offset, metadata)
        self.groups = {}
        self.history = []  # every request received, in order
        self.bad_frames = []
        self.faults = FaultPlan()
        self.version_table = list(DEFAULT_VERSION_TABLE)
        self.fetch_waiters = []
        self.metadata_override = None  # fn(ev) -> (brokers, topics) or None
        self.auto_create = False
        self.rebalance_timeout_is_session = True
        self.on_event = []  # callbacks(ev) after an event was handled
        self.on_receive = []  # callbacks(ev) when a request arrives, before it is handled
        self.ghost_pred = None  # differential re-runs: fn(ev) -> True to draw but not deliver the reply

    # -- topology ----------------------------------------------------------
    def add_broker(self, node_id, host=None, port=None):
        host = host or ("kafka%d.sim" % node_id)
        port = port or (9092 + node_id)
        b = Broker(self, node_id, host, port)
        self.brokers[node_id] = b
        self.net.listen(host, port, b)
        return b

    def add_topic(self, name, leaders, replicas=None):
        """leaders: {partition: node id}"""
        self.topic_partitions[name] = sorted(leaders)
        for p, node in leaders.items():
            self.logs[(name, p)] = PartitionLog(name, p)
            self.leaders[(name, p)] = node
            self.replicas[(name, p)] = (replicas or {}).get(p, [node] if node >= 0 else [])

    def log(self, topic, partition):
        return self.logs[(topic, partition)]

    def stop_broker(self, node_id, sever=True):
        b = self.brokers[node_id]
        b.up = False
        if sever:
            for bc in list(b.conns):
                bc.conn.sever("broker_stopped")
        self.history.append(dict(t=self.clock.seconds(), api="_broker_stopped", broker=node_id))

    def start_broker(self, node_id):
        self.brokers[node_id].up = True
        self.history.append(dict(t=self.clock.seconds(), api="_broker_started", broker=node_id))

    def readdress(self, node_id, host, port, sever=True):
        b = self.brokers[node_id]
        self.net.unlisten(b.host, b.port)
        b.host, b.port = host, port
        self.net.listen(host, port, b)
        if sever:
            for bc in list(b.conns):
                bc.conn.sever("readdressed")
        self.history.append(dict(t=self.clock.seconds(), api="_broker_readdressed", broker=node_id, host=host,
                                 port=port))

    def move_leader(self, topic, partition, node_id):
        self.leaders[(topic, partition)] = node_id
        self.history.append(dict(t=self.clock.seconds(), api="_leader_moved", topic=topic, partition=partition,
                                 leader=node_id))
        self._wake_fetchers()

    def coordinator_for(self, group):
        if group not in self.coordinators:
            ups = sorted(self.brokers)
            self.coordinators[group] = ups[sum(group.encode("utf-8")) % len(ups)]
        return self.coordinators[group]

    def move_coordinator(self, group, node_id):
        self.coordinators[group] = node_id
        self.history.append(dict(t=self.clock.seconds(), api="_coordinator_moved", group=group, node=node_id))

    # -- request entry -----------------------------------------------------
    def handle(self, broker, bconn, frame):
        t = self.clock.seconds()
        try:
            req = R.parse_request(frame)
        except R.ParseError as e:
            self.bad_frames.append(dict(t=t, broker=broker.node_id, conn=bconn.conn.id, error=str(e), frame=frame))
            bconn.conn.server_close(clean=False)
            return
        body = req["body"]
        topics = ()
        if isinstance(body.get("topics"), list):
            topics = tuple(x["topic"] if isinstance(x, dict) else x for x in body["topics"])
        ev = dict(t=t, seq=len(self.history), broker=broker.node_id, conn=bconn.conn.id, owner=bconn.conn.owner,
                  api=req["api_name"], version=req["api_version"], corr=req["correlation_id"],
                  client_id=req["client_id"], req=body, topics=topics, frame_len=len(frame), replied=None,
                  reply_t=None, result=None)
        self.history.append(ev)
        for cb in self.on_receive:
            cb(ev)
        act = self.faults.decide(ev)
        ev["action"] = act.as_json()
        if act.kind == "drop" and not act.apply:
            ev["replied"] = "dropped-before"
            bconn.conn.server_close(clean=False)
            self._done(ev)
            return
        handler = getattr(self, "_h_" + req["api_name"])

        def reply(data):
            if ev["replied"] is not None:
                return
            if data is None:
                ev["replied"] = "none-expected"
                self._done(ev)
                return
            if act.kind == "silent":
                ev["replied"] = "silent"
                self._done(ev)
                return
            if act.kind == "drop":
                ev["replied"] = "dropped-after"
                bconn.conn.server_close(clean=False)
                self._done(ev)
                return
            if act.kind == "garbage":
                data = struct.pack(">i", ev["corr"]) + (act.garbage if act.garbage is not None else b"\xff\xff\xff")

            def send():
                if bconn.conn.server_gone:
                    ev["replied"] = "connection-gone"
                else:
                    ev["replied"] = "sent"
                    ev["reply_t"] = self.clock.seconds()
                    ev["reply_len"] = len(data)
                    ev["reply_crc"] = zlib.crc32(data) & 0xffffffff
                    ghost = self.ghost_pred is not None and self.ghost_pred(ev)
                    ev["ghost"] = ghost
                    bconn.conn.server_send(R.frame(data), label="net.s2c." + ev["api"], ghost=ghost)
                self._done(ev)
            if act.delay > 0:
                self.clock.labelled(act.delay, "srv.delayed_reply." + ev["api"], send)
            else:
                send()
        handler(broker, bconn, ev, act, reply)

    def _done(self, ev):
        for cb in self.on_event:
            cb(ev)

    def on_conn_closed(self, bconn):
        self.fetch_waiters = [w for w in self.fetch_waiters if w["bconn"] is not bconn]

    # -- ApiVersions ---------------------------------------------------------
    def _h_ApiVersions(self, broker, bconn, ev, act, reply):
        mode = broker.api_versions
        if mode == "close":
            ev["replied"] = "closed-unknown-api"
            bconn.conn.server_close(clean=True)
            self._done(ev)
            return
        if mode == "silent":
            ev["replied"] = "silent"
            self._done(ev)
            return
        if mode == "stall":
            # a stalled broker: the request is answered when release_stalled() is called
            table = broker.version_table if broker.version_table is not None else self.version_table
            broker.stalled.append((ev, reply, list(table)))
            return
        if mode == "error35" or act.kind == "error":
            code = ERR_UNSUPPORTED_VERSION if mode == "error35" else act.code
            ev["result"] = dict(error=code, versions=[])
            reply(R.resp_api_versions(ev["corr"], code, []))
            return
        table = broker.version_table if broker.version_table is not None else self.version_table
        ev["result"] = dict(error=0, versions=list(table))
        reply(R.resp_api_versions(ev["corr"], 0, table))

    # -- Metadata --------------------------------------------------------------
    def metadata_view(self, topics):
        brokers = [(b.node_id, b.host, b.port) for b in self.brokers.values() if b.up]
        up = set(b[0] for b in brokers)
        names = list(topics) if topics else sorted(self.topic_partitions)
        out = []
        for name in names:
            if name not in self.topic_partitions:
                if self.auto_create:
                    self.add_topic(name, {0: sorted(up)[0]} if up else {0: -1})
                    out.append((ERR_LEADER_NOT_AVAILABLE, name, []))
                else:
                    out.append((ERR_UNKNOWN_TOPIC_OR_PARTITION, name, []))
                continue
            terr = self.topic_errors.get(name, 0)
            parts = []
            for p in self.topic_partitions[name]:
                leader = self.leaders[(name, p)]
                perr = self.partition_errors.get((name, p), 0)
                if leader not in up:
                    leader = -1
                    perr = perr or ERR_LEADER_NOT_AVAILABLE
                reps = list(self.replicas.get((name, p), []))
                parts.append((perr, p, leader, reps, [r for r in reps if r in up]))
            out.append((terr, name, parts))
        return brokers, out

    def _h_Metadata(self, broker, bconn, ev, act, reply):
        view = None
        if self.metadata_override is not None:
            view = self.metadata_override(ev)
        if view is None:
            view = self.metadata_view(ev["req"]["topics"])
        brokers, topics = view
        if act.kind == "error":
            topics = [(act.code, t[1], []) for t in topics]
        ev["result"] = dict(brokers=brokers, topics=topics)
        reply(R.resp_metadata(ev["corr"], brokers, topics))

    # -- Produce -----------------------------------------------------------------
    def _h_Produce(self, broker, bconn, ev, act, reply):
        body = ev["req"]
        results = []
        per_topic = []
        for t in body["topics"]:
            parts = []
            for p in t["partitions"]:
                key = (t["topic"], p["partition"])
                flat = R.flatten_messages(p["messages"])
                recs = [(m["key"], m["value"], m["timestamp"]) for m in flat]
                codec = p["messages"][0]["codec"] if p["messages"] else 0
                magic = p["messages"][0]["magic"] if p["messages"] else 0
                err, base = 0, -1
                if key not in self.logs:
                    err = ERR_UNKNOWN_TOPIC_OR_PARTITION
                elif self.leaders.get(key) != broker.node_id:
                    err = ERR_NOT_LEADER
                elif key in act.perr:
                    err = act.perr[key]
                elif act.kind == "error":
                    err = act.code
                applied = False
                if err == 0 and act.applies() and recs:
                    base = self.logs[key].append(recs, magic=magic, codec=codec)
                    applied = True
                results.append(dict(topic=key[0], partition=key[1], error=err, base_offset=base, applied=applied,
                                    records=recs, codec=codec, magic=magic,
                                    leader_at_apply=self.leaders.get(key)))
                parts.append((key[1], err, base, -1))
            per_topic.append((t["topic"], parts))
        ev["result"] = results
        if any(r["applied"] for r in results):
            self._wake_fetchers()
        if body["acks"] == 0:
            reply(None)
            return
        reply(R.resp_produce(ev["corr"], per_topic, version=ev["version"]))

    # -- Fetch -------------------------------------------------------------------
    def _fetch_eval(self, broker, ev, act):
        body = ev["req"]
        per_topic = []
        results = []
        total = 0
        any_error = False
        for t in body["topics"]:
            parts = []
            for p in t["partitions"]:
                key = (t["topic"], p["partition"])
                err, hw, data = 0, -1, b""
                if key not in self.logs:
                    err = ERR_UNKNOWN_TOPIC_OR_PARTITION
                elif self.leaders.get(key) != broker.node_id:
                    err = ERR_NOT_LEADER
                elif key in act.perr:
                    err = act.perr[key]
                elif act.kind == "error":
                    err = act.code
                else:
                    lg = self.logs[key]
                    hw = lg.next_offset
                    if p["offset"] < lg.log_start or p["offset"] > lg.next_offset:
                        err = ERR_OFFSET_OUT_OF_RANGE
                    else:
                        full = lg.render(p["offset"], ev["version"])
                        total += len(full)
                        data = full[:max(0, p["max_bytes"])]
                if err:
                    any_error = True
                results.append(dict(topic=key[0], partition=key[1], error=err, offset=p["offset"],
                                    max_bytes=p["max_bytes"], high_watermark=hw, served_bytes=len(data),
                                    truncated=(err == 0 and len(data) < total)))
                parts.append((key[1], err, hw, data))
            per_topic.append((t["topic"], parts))
        return per_topic, results, total, any_error

    def _h_Fetch(self, broker, bconn, ev, act, reply):
        per_topic, results, total, any_error = self._fetch_eval(broker, ev, act)
        body = ev["req"]

        def finish():
            pt, rs, _tot, _e = self._fetch_eval(broker, ev, act)
            ev["result"] = rs
            if act.kind == "corrupt":
                # one bit of the last byte of each partition's record data is flipped in transit: the last
                # message (or wrapper) of the reply fails its CRC, everything before it is intact
                pt = [(t, [(p, err, hw, (data[:-1] + bytes([data[-1] ^ 0x10])) if data else data)
                           for (p, err, hw, data) in parts]) for (t, parts) in pt]
                for r_ in rs:
                    r_["corrupted_in_transit"] = True
            reply(R.resp_fetch(ev["corr"], pt, version=ev["version"]))
        if any_error or total >= max(1, body["min_bytes"]) or body["max_wait_ms"] <= 0:
            finish()
            return
        w = dict(ev=ev, bconn=bconn, broker=broker, act=act, finish=finish, done=False)

        def timeout():
            if not w["done"]:
                w["done"] = True
                if w in self.fetch_waiters:
                    self.fetch_waiters.remove(w)
                finish()
        w["dc"] = self.clock.labelled(body["max_wait_ms"] / 1000.0, "srv.fetch_wait_expired", timeout)
        self.fetch_waiters.append(w)

    def _wake_fetchers(self):
        for w in list(self.fetch_waiters):
            if w["done"]:
                continue
            _pt, _rs, total, any_error = self._fetch_eval(w["broker"], w["ev"], w["act"])
            if any_error or total >= max(1, w["ev"]["req"]["min_bytes"]):
                w["done"] = True
                self.fetch_waiters.remove(w)
                if w["dc"].active():
                    w["dc"].cancel()
                self.clock.labelled(0, "srv.fetch_wait_satisfied", w["finish"])

    def append_records(self, topic, partition, records, magic=0, codec=0):
        """Background appender (not via the wire)."""
        base = self.logs[(topic, partition)].append(records, magic=magic, codec=codec)
        self._wake_fetchers()
        return base

    # -- ListOffsets ---------------------------------------------------------------
    def _h_ListOffsets(self, broker, bconn, ev, act, reply):
        per_topic = []
        results = []
        for t in ev["req"]["topics"]:
            parts = []
            for p in t["partitions"]:
                key = (t["topic"], p["partition"])
                err, offs = 0, []
                if key not in self.logs:
                    err = ERR_UNKNOWN_TOPIC_OR_PARTITION
                elif self.leaders.get(key) != broker.node_id:
                    err = ERR_NOT_LEADER
                elif key in act.perr:
                    err = act.perr[key]
                elif act.kind == "error":
                    err = act.code
                else:
                    lg = self.logs[key]
                    if p["max_num_offsets"] >= 1:
                        offs = [lg.next_offset] if p["timestamp"] == -1 else [lg.log_start]
                results.append(dict(topic=key[0], partition=key[1], error=err, offsets=offs,
                                    timestamp=p["timestamp"]))
                parts.append((key[1], err, offs))
            per_topic.append((t["topic"], parts))
        ev["result"] = results
        reply(R.resp_list_offsets(ev["corr"], per_topic))

    # -- FindCoordinator -------------------------------------------------------------
    def _h_FindCoordinator(self, broker, bconn, ev, act, reply):
        group = ev["req"]["group"]
        if act.kind == "error":
            ev["result"] = dict(error=act.code)
            reply(R.resp_find_coordinator(ev["corr"], act.code, -1, "", -1))
            return
        node = self.coordinator_for(group)
        b = self.brokers.get(node)
        if b is None or not b.up:
            ev["result"] = dict(error=ERR_COORDINATOR_NOT_AVAILABLE)
            reply(R.resp_find_coordinator(ev["corr"], ERR_COORDINATOR_NOT_AVAILABLE, -1, "", -1))
            return
        ev["result"] = dict(error=0, node=node, host=b.host, port=b.port)
        reply(R.resp_find_coordinator(ev["corr"], 0, node, b.host, b.port))

    # -- offsets -----------------------------------------------------------------------
    def _group_check(self, broker, group_name, generation, member, for_commit=False):
        """Coordinator-side validation shared by commit / heartbeat / sync."""
        if self.coordinator_for(group_name) != broker.node_id:
            return ERR_NOT_COORDINATOR
        g = self.groups.get(group_name)
        if for_commit and generation < 0 and member == "":
            if g is None or g.state == "Empty":
                return 0
            return ERR_UNKNOWN_MEMBER_ID
        if g is None or member not in g.members:
            return ERR_UNKNOWN_MEMBER_ID
        if generation != g.generation:
            return ERR_ILLEGAL_GENERATION
        return 0

    def _h_OffsetCommit(self, broker, bconn, ev, act, reply):
        body = ev["req"]
        err = self._group_check(broker, body["group"], body["generation"], body["member"], for_commit=True)
        g = self.groups.get(body["group"])
        if err == 0 and g is not None and g.state in ("AwaitingSync", "PreparingRebalance") and body["generation"] >= 0:
            # kafka: commits during a rebalance are accepted in PreparingRebalance (so members can commit
            # before rejoining) and rejected with REBALANCE_IN_PROGRESS while awaiting sync
            if g.state == "AwaitingSync":
                err = ERR_REBALANCE_IN_PROGRESS
        if act.kind == "error":
            err = act.code
        per_topic = []
        results = []
        for t in body["topics"]:
            parts = []
            for p in t["partitions"]:
                key = (t["topic"], p["partition"])
                perr = err or act.perr.get(key, 0)
                stored = False
                if perr == 0 and act.applies():
                    self.offsets[(body["group"], key[0], key[1])] = (p["offset"], p["metadata"])
                    stored = True
                results.append(dict(topic=key[0], partition=key[1], offset=p["offset"], error=perr, stored=stored,
                                    generation=body["generation"], member=body["member"], group=body["group"]))
                parts.append((key[1], perr))
            per_topic.append((t["topic"], parts))
        ev["result"] = results
        if g is not None and err == 0 and body["member"] in g.members:
            self._touch_session(g, g.members[body["member"]])
        reply(R.resp_offset_commit(ev["corr"], per_topic))

    def _h_OffsetFetch(self, broker, bconn, ev, act, reply):
        body = ev["req"]
        err = 0
        if self.coordinator_for(body["group"]) != broker.node_id:
            err = ERR_NOT_COORDINATOR
        if act.kind == "error":
            err = act.code
        per_topic = []
        results = []
        for t in body["topics"]:
            parts = []
            for p in t["partitions"]:
                key = (t["topic"], p["partition"])
                perr = err or act.perr.get(key, 0)
                off, md = -1, ""
                if perr == 0:
                    off, md = self.offsets.get((body["group"], key[0], key[1]), (-1, ""))
                    if md is None:
                        md = ""
                results.append(dict(topic=key[0], partition=key[1], offset=off, error=perr, group=body["group"]))
                parts.append((key[1], off, md if perr == 0 else "", perr))
            per_topic.append((t["topic"], parts))
        ev["result"] = results
        reply(R.resp_offset_fetch(ev["corr"], per_topic))

    # -- group coordinator (appendix B) ---------------------------------------------------
    def group(self, name):
        if name not in self.groups:
            self.groups[name] = Group(name)
        return self.groups[name]

    def _touch_session(self, g, m):
        if m.foreign:
            return
        if m.session_dc is not None and m.session_dc.active():
            m.session_dc.cancel()
        m.session_dc = self.clock.labelled(m.session_timeout / 1000.0, "srv.session_expired", self._expire, g,
                                           m.member_id)

    def _expire(self, g, member_id):
        m = g.members.get(member_id)
        if m is None:
            return
        self.history.append(dict(t=self.clock.seconds(), api="_session_expired", group=g.name, member=member_id,
                                 generation=g.generation))
        self._remove_member(g, member_id)

    def _remove_member(self, g, member_id):
        m = g.members.pop(member_id, None)
        if m is None:
            return
        if m.session_dc is not None and m.session_dc.active():
            m.session_dc.cancel()
        if not g.members:
            g.state = "Empty"
            if g.rebalance_dc is not None and g.rebalance_dc.active():
                g.rebalance_dc.cancel()
            g.rebalance_dc = None
            return
        if g.state in ("Stable", "AwaitingSync"):
            self._prepare_rebalance(g)
        elif g.state == "PreparingRebalance":
            self._maybe_complete_join(g)

    def _prepare_rebalance(self, g):
        # fail held syncs: members must rejoin
        for m in g.members.values():
            if m.sync_reply is not None:
                r, m.sync_reply = m.sync_reply, None
                r(ERR_REBALANCE_IN_PROGRESS, b"")
            m.joined_this_round = m.foreign
        g.state = "PreparingRebalance"
        if g.rebalance_dc is not None and g.rebalance_dc.active():
            g.rebalance_dc.cancel()
        timeout = max([m.session_timeout for m in g.members.values()] + [1000]) / 1000.0
        g.rebalance_dc = self.clock.labelled(timeout, "srv.rebalance_timeout", self._rebalance_timeout, g)
        self.history.append(dict(t=self.clock.seconds(), api="_group_state", group=g.name, state=g.state,
                                 generation=g.generation))

    def _rebalance_timeout(self, g):
        if g.state != "PreparingRebalance":
            return
        for mid in [mid for mid, m in g.members.items() if not m.joined_this_round]:
            m = g.members.pop(mid)
            if m.session_dc is not None and m.session_dc.active():
                m.session_dc.cancel()
            self.history.append(dict(t=self.clock.seconds(), api="_member_dropped_at_rebalance", group=g.name,
                                     member=mid))
        if not g.members:
            g.state = "Empty"
            return
        self._complete_join(g)

    def _maybe_complete_join(self, g):
        if g.state == "PreparingRebalance" and g.members and all(m.joined_this_round for m in g.members.values()):
            self._complete_join(g)

    def _complete_join(self, g):
        if g.rebalance_dc is not None and g.rebalance_dc.active():
            g.rebalance_dc.cancel()
        g.rebalance_dc = None
        g.generation += 1
        g.state = "AwaitingSync"
        if g.leader not in g.members:
            g.leader = next(iter(g.members))
        # protocol: first one supported by all
        names = None
        for m in g.members.values():
            s = [n for n, _ in m.protocols]
            names = s if names is None else [n for n in names if n in s]
        g.protocol = names[0] if names else ""
        self.history.append(dict(t=self.clock.seconds(), api="_group_state", group=g.name, state=g.state,
                                 generation=g.generation, leader=g.leader, members=list(g.members)))
        for m in g.members.values():
            m.joined_this_round = m.foreign
            if m.join_reply is not None:
                r, m.join_reply = m.join_reply, None
                md = dict(m.protocols).get(g.protocol, b"")
                members = [(x.member_id, dict(x.protocols).get(g.protocol, b"")) for x in g.members.values()] \
                    if m.member_id == g.leader else []
                r(0, g.generation, g.protocol, g.leader, m.member_id, members)
            self._touch_session(g, m)

    def _h_JoinGroup(self, broker, bconn, ev, act, reply):
        body = ev["req"]

        def answer(err, generation=-1, protocol="", leader="", member="", members=()):
            ev["result"] = dict(error=err, generation=generation, leader=leader, member=member,
                                members=[m[0] for m in members], protocol=protocol)
            reply(R.resp_join_group(ev["corr"], err, generation, protocol, leader, member, list(members)))
        if act.kind == "error":
            answer(act.code, member=body["member"])
            return
        if self.coordinator_for(body["group"]) != broker.node_id:
            answer(ERR_NOT_COORDINATOR, member=body["member"])
            return
        if not (1 <= body["session_timeout"] <= 300000):
            answer(ERR_INVALID_SESSION_TIMEOUT, member=body["member"])
            return
        g = self.group(body["group"])
        mid = body["member"]
        protocols = [(p["name"], p["metadata"]) for p in body["protocols"]]
        if mid and mid not in g.members:
            answer(ERR_UNKNOWN_MEMBER_ID, member=mid)
            return
        if g.members and not any(n in [x for x, _ in next(iter(g.members.values())).protocols]
                                 for n, _ in protocols):
            answer(ERR_INCONSISTENT_GROUP_PROTOCOL, member=mid)
            return
        if not act.applies():
            reply(b"")  # swallowed by the fault handling in reply()
            return
        if not mid:
            g.next_member += 1
            mid = "%s-member-%d" % ((ev["client_id"] or b"c").decode("utf-8", "replace"), g.next_member)
            m = Member(mid, body["session_timeout"], protocols, bconn.conn.id)
            g.members[mid] = m
            changed = True
        else:
            m = g.members[mid]
            changed = m.protocols != protocols
            m.protocols = protocols
            m.session_timeout = body["session_timeout"]
            m.conn_id = bconn.conn.id
        if m.join_reply is not None:
            old, m.join_reply = m.join_reply, None
        m.join_reply = answer
        m.joined_this_round = True
        self._touch_session(g, m)
        if g.state in ("Empty", "Stable", "AwaitingSync"):
            if g.state == "Stable" and not changed and mid != g.leader:
                # a follower rejoining with unchanged metadata while stable gets the current generation back
                m.join_reply = None
                answer(0, g.generation, g.protocol, g.leader, mid, [])
                return
            self._prepare_rebalance(g)
            m.joined_this_round = True
        self._maybe_complete_join(g)

    def _h_SyncGroup(self, broker, bconn, ev, act, reply):
        body = ev["req"]

        def answer(err, assignment=b""):
            ev["result"] = dict(error=err, assignment=assignment)
            reply(R.resp_sync_group(ev["corr"], err, assignment))
        if act.kind == "error":
            answer(act.code)
            return
        err = self._group_check(broker, body["group"], body["generation"], body["member"])
        if err:
            answer(err)
            return
        g = self.groups[body["group"]]
        m = g.members[body["member"]]
        if g.state == "PreparingRebalance":
            answer(ERR_REBALANCE_IN_PROGRESS)
            return
        if not act.applies():
            reply(b"")
            return
        self._touch_session(g, m)
        if g.state == "Stable":
            answer(0, m.assignment)
            return
        # AwaitingSync
        m.sync_reply = answer
        if body["member"] == g.leader:
            amap = dict((a["member"], a["assignment"]) for a in body["assignments"])
            ev["leader_assignments"] = amap
            for x in g.members.values():
                x.assignment = amap.get(x.member_id, b"")
            g.state = "Stable"
            self.history.append(dict(t=self.clock.seconds(), api="_group_state", group=g.name, state=g.state,
                                     generation=g.generation, leader=g.leader,
                                     assignments=dict((k, v) for k, v in amap.items())))
            for x in g.members.values():
                if x.sync_reply is not None:
                    r, x.sync_reply = x.sync_reply, None
                    r(0, x.assignment)

    def _h_Heartbeat(self, broker, bconn, ev, act, reply):
        body = ev["req"]
        if act.kind == "error":
            err = act.code
        else:
            err = self._group_check(broker, body["group"], body["generation"], body["member"])
            if err == 0:
                g = self.groups[body["group"]]
                if g.state in ("PreparingRebalance", "AwaitingSync"):
                    err = ERR_REBALANCE_IN_PROGRESS
                if act.applies():
                    self._touch_session(g, g.members[body["member"]])
        ev["result"] = dict(error=err)
        reply(R.resp_heartbeat(ev["corr"], err))

    def _h_LeaveGroup(self, broker, bconn, ev, act, reply):
        body = ev["req"]
        if act.kind == "error":
            err = act.code
        elif self.coordinator_for(body["group"]) != broker.node_id:
            err = ERR_NOT_COORDINATOR
        else:
            g = self.groups.get(body["group"])
            if g is None or body["member"] not in g.members:
                err = ERR_UNKNOWN_MEMBER_ID
            else:
                err = 0
                if act.applies():
                    self._remove_member(g, body["member"])
        ev["result"] = dict(error=err)
        reply(R.resp_leave_group(ev["corr"], err))

    def add_foreign_member(self, group_name, member_id, protocols):
        """A member that is not an afkak client (its subscription metadata is given as bytes)."""
        g = self.group(group_name)
        m = Member(member_id, 30000, list(protocols), -1)
        m.foreign = True
        m.joined_this_round = True
        g.members[member_id] = m
        self.history.append(dict(t=self.clock.seconds(), api="_foreign_member_joined", group=group_name,
                                 member=member_id))
        if g.state in ("Stable", "AwaitingSync"):
            self._prepare_rebalance(g)
        elif g.state == "Empty":
            g.state = "PreparingRebalance"
            self._maybe_complete_join(g)

    def remove_foreign_member(self, group_name, member_id):
        g = self.groups.get(group_name)
        if g is not None and member_id in g.members:
            self._remove_member(g, member_id)

    def evict(self, group_name, member_id):
        g = self.groups.get(group_name)
        if g is not None and member_id in g.members:
            self.history.append(dict(t=self.clock.seconds(), api="_member_evicted", group=group_name,
                                     member=member_id))
            self._remove_member(g, member_id)

    # -- self check ---------------------------------------------------------------------
    def check_invariants(self):
        for key, lg in self.logs.items():
            last = -1
            for o in [o for b in lg.batches for o in b.offsets]:
                assert o > last, ("offsets not increasing", key)
                last = o
            assert lg.next_offset > last or (last == -1 and lg.next_offset >= 0)
        for g in self.groups.values():
            if g.members:
                assert g.leader in g.members or g.state in ("PreparingRebalance",), (g.name, g.leader, list(g.members))


def requests_of(history, api=None):
    return [e for e in history if "req" in e and (api is None or e["api"] == api)]

"""Independent, strict implementation of the subset of the Kafka wire protocol
that afkak speaks.  Written from the protocol guide (see DESIGN.md appendix A).

Imports nothing from afkak.  Used as
  * the oracle parser for every request afkak emits (C04),
  * the encoder of every response afkak is asked to decode (C05, C12),
  * the wire front/back end of the simulated cluster (simkafka).

All functions work on *unframed* messages (without the 4-byte size prefix)
unless they say otherwise.
"""
import struct
import zlib

API_PRODUCE = 0
API_FETCH = 1
API_LIST_OFFSETS = 2
API_METADATA = 3
API_OFFSET_COMMIT = 8
API_OFFSET_FETCH = 9
API_FIND_COORDINATOR = 10
API_JOIN_GROUP = 11
API_HEARTBEAT = 12
API_LEAVE_GROUP = 13
API_SYNC_GROUP = 14
API_VERSIONS = 18

API_NAMES = {
    0: "Produce", 1: "Fetch", 2: "ListOffsets", 3: "Metadata", 8: "OffsetCommit",
    9: "OffsetFetch", 10: "FindCoordinator", 11: "JoinGroup", 12: "Heartbeat",
    13: "LeaveGroup", 14: "SyncGroup", 18: "ApiVersions",
}

# versions of each API whose layout this module knows
KNOWN_VERSIONS = {
    API_PRODUCE: (0, 1, 2), API_FETCH: (0, 1, 2), API_LIST_OFFSETS: (0,), API_METADATA: (0,),
    API_OFFSET_COMMIT: (1,), API_OFFSET_FETCH: (1,), API_FIND_COORDINATOR: (0,),
    API_JOIN_GROUP: (0,), API_HEARTBEAT: (0,), API_LEAVE_GROUP: (0,), API_SYNC_GROUP: (0,),
    API_VERSIONS: (0,),
}

CODEC_NONE, CODEC_GZIP, CODEC_SNAPPY, CODEC_LZ4 = 0, 1, 2, 3


class ParseError(Exception):
    """The bytes do not conform to the grammar."""


# ---------------------------------------------------------------------------
# primitive reader / writer


class Reader(object):
    __slots__ = ("data", "pos", "end")

    def __init__(self, data, pos=0, end=None):
        self.data = data
        self.pos = pos
        self.end = len(data) if end is None else end

    def remaining(self):
        return self.end - self.pos

    def _take(self, n, what):
        if n < 0:
            raise ParseError("negative length %d for %s at %d" % (n, what, self.pos))
        if self.pos + n > self.end:
            raise ParseError("%s at %d needs %d bytes, %d left" % (what, self.pos, n, self.end - self.pos))
        p = self.pos
        self.pos += n
        return p

    def int8(self, what="int8"):
        p = self._take(1, what)
        return struct.unpack_from(">b", self.data, p)[0]

    def uint8(self, what="uint8"):
        p = self._take(1, what)
        return self.data[p]

    def int16(self, what="int16"):
        p = self._take(2, what)
        return struct.unpack_from(">h", self.data, p)[0]

    def int32(self, what="int32"):
        p = self._take(4, what)
        return struct.unpack_from(">i", self.data, p)[0]

    def uint32(self, what="uint32"):
        p = self._take(4, what)
        return struct.unpack_from(">I", self.data, p)[0]

    def int64(self, what="int64"):
        p = self._take(8, what)
        return struct.unpack_from(">q", self.data, p)[0]

    def raw(self, n, what="raw"):
        p = self._take(n, what)
        return bytes(self.data[p:p + n])

    def string(self, what="string", nullable=False):
        """int16-prefixed; returns bytes or None"""
        n = self.int16(what + ".len")
        if n == -1:
            if not nullable:
                raise ParseError("null for non-nullable %s" % what)
            return None
        if n < 0:
            raise ParseError("bad string length %d for %s" % (n, what))
        return self.raw(n, what)

    def text(self, what="string", nullable=False):
        b = self.string(what, nullable)
        if b is None:
            return None
        try:
            return b.decode("utf-8")
        except UnicodeDecodeError:
            raise ParseError("%s is not valid UTF-8: %r" % (what, b))

    def bytes_(self, what="bytes", nullable=True):
        n = self.int32(what + ".len")
        if n == -1:
            if not nullable:
                raise ParseError("null for non-nullable %s" % what)
            return None
        if n < 0:
            raise ParseError("bad bytes length %d for %s" % (n, what))
        return self.raw(n, what)

    def array(self, fn, what="array", nullable=False):
        n = self.int32(what + ".count")
        if n == -1 and nullable:
            return None
        if n < 0:
            raise ParseError("bad array count %d for %s" % (n, what))
        if n > self.remaining():  # every element takes at least one byte
            raise ParseError("array count %d for %s exceeds remaining %d bytes" % (n, what, self.remaining()))
        return [fn(self) for _ in range(n)]

    def done(self, what="message"):
        if self.pos != self.end:
            raise ParseError("%d trailing bytes after %s" % (self.end - self.pos, what))


def w_int8(v):
    return struct.pack(">b", v)


def w_int16(v):
    return struct.pack(">h", v)


def w_int32(v):
    return struct.pack(">i", v)


def w_int64(v):
    return struct.pack(">q", v)


def w_string(s):
    if s is None:
        return struct.pack(">h", -1)
    if isinstance(s, str):
        s = s.encode("utf-8")
    if len(s) > 32767:
        raise ValueError("string too long")
    return struct.pack(">h", len(s)) + s


def w_bytes(b):
    if b is None:
        return struct.pack(">i", -1)
    return struct.pack(">i", len(b)) + bytes(b)


def w_array(items, fn):
    return struct.pack(">i", len(items)) + b"".join(fn(i) for i in items)


def frame(msg):
    return struct.pack(">i", len(msg)) + msg


# ---------------------------------------------------------------------------
# gzip (RFC 1952) through zlib only


def gzip_compress(data, level=6):
    c = zlib.compressobj(level, zlib.DEFLATED, 31)
    return c.compress(data) + c.flush()


def gzip_decompress(data, limit=256 * 1024 * 1024):
    out = []
    total = 0
    rest = data
    while rest:
        d = zlib.decompressobj(31)
        try:
            chunk = d.decompress(rest, limit - total + 1)
        except zlib.error as e:
            raise ParseError("bad gzip stream: %s" % e)
        total += len(chunk)
        if total > limit:
            raise ParseError("gzip stream inflates beyond limit")
        out.append(chunk)
        if not d.eof:
            raise ParseError("truncated gzip stream")
        rest = d.unused_data
    return b"".join(out)


# ---------------------------------------------------------------------------
# messages and message sets (magic 0 and 1)


def encode_message(key, value, magic=0, attributes=0, timestamp=None, corrupt_crc=False):
    if magic == 0:
        body = struct.pack(">bb", magic, attributes)
    elif magic == 1:
        body = struct.pack(">bbq", magic, attributes, -1 if timestamp is None else timestamp)
    else:
        raise ValueError("magic %r" % (magic,))
    body += w_bytes(key) + w_bytes(value)
    crc = zlib.crc32(body) & 0xFFFFFFFF
    if corrupt_crc:
        crc ^= 0x1
    return struct.pack(">I", crc) + body


def encode_message_set(entries):
    """entries: iterable of (offset, encoded_message_bytes)"""
    return b"".join(struct.pack(">qi", off, len(m)) + m for off, m in entries)


def encode_wrapper(inner_entries, wrapper_offset, magic=0, codec=CODEC_GZIP, timestamp=None, key=None,
                   extra_attributes=0, members=1, split_at=None):
    """A compressed wrapper message-set entry.

    inner_entries: list of (inner_offset, encoded_message) -- the caller decides
    whether inner offsets are absolute (magic 0) or relative (magic 1).
    Returns (wrapper_offset, encoded wrapper message).
    """
    inner = encode_message_set(inner_entries)
    if codec == CODEC_GZIP and members > 1:
        # the same bytes as several concatenated gzip members (RFC 1952 2.2; what a compressor that is flushed
        # and restarted writes, and what java.util.zip.GZIPInputStream reads back as one stream)
        cuts = sorted(split_at or [len(inner) * i // members for i in range(1, members)])
        pieces = [inner[a:b] for a, b in zip([0] + cuts, cuts + [len(inner)])]
        payload = b"".join(gzip_compress(p) for p in pieces if p or len(pieces) == 1)
    elif codec == CODEC_GZIP:
        payload = gzip_compress(inner)
    else:
        raise ValueError("codec %r not available in refproto" % codec)
    return wrapper_offset, encode_message(key, payload, magic=magic, attributes=codec | extra_attributes,
                                          timestamp=timestamp)


def parse_message(data, what="message", depth=0, wrapper_magic=None, strict_inner=True):
    """Strictly parse one message (the bytes after the size field).

    Returns dict(magic, attributes, codec, timestamp, key, value, inner).
    `inner` is None for an uncompressed message, else the parsed inner set.
    """
    r = Reader(data)
    crc = r.uint32(what + ".crc")
    actual = zlib.crc32(data[4:]) & 0xFFFFFFFF
    if crc != actual:
        raise ParseError("%s: CRC mismatch (stored %08x computed %08x)" % (what, crc, actual))
    magic = r.int8(what + ".magic")
    if magic not in (0, 1):
        raise ParseError("%s: unsupported magic %d" % (what, magic))
    if wrapper_magic is not None and magic != wrapper_magic:
        raise ParseError("%s: inner magic %d does not match wrapper magic %d" % (what, magic, wrapper_magic))
    attributes = r.int8(what + ".attributes")
    codec = attributes & 0x07
    legal = 0x07 | (0x08 if magic == 1 else 0)
    if attributes & ~legal:
        raise ParseError("%s: illegal attribute bits 0x%02x for magic %d" % (what, attributes & 0xFF, magic))
    if codec not in (CODEC_NONE, CODEC_GZIP, CODEC_SNAPPY, CODEC_LZ4):
        raise ParseError("%s: unknown codec %d" % (what, codec))
    timestamp = None
    if magic == 1:
        timestamp = r.int64(what + ".timestamp")
    key = r.bytes_(what + ".key")
    value = r.bytes_(what + ".value")
    r.done(what)
    inner = None
    if codec != CODEC_NONE:
        if depth >= 1 and strict_inner:
            raise ParseError("%s: nested compression" % what)
        if value is None:
            raise ParseError("%s: compressed message with null value" % what)
        if codec == CODEC_GZIP:
            raw = gzip_decompress(value)
        else:
            raise ParseError("%s: codec %d cannot be decoded by the reference" % (what, codec))
        inner = parse_message_set(raw, what + ".inner", depth=depth + 1, wrapper_magic=magic,
                                  strict_inner=strict_inner)
        if not inner:
            raise ParseError("%s: compressed wrapper with no inner message" % what)
    return dict(magic=magic, attributes=attributes, codec=codec, timestamp=timestamp, key=key, value=value,
                inner=inner)


def parse_message_set(data, what="message_set", depth=0, wrapper_magic=None, allow_partial=False,
                      strict_inner=True):
    """Strictly parse a message set: list of dict(offset, **message)."""
    r = Reader(data)
    out = []
    while r.remaining():
        if allow_partial and r.remaining() < 12:
            break
        off = r.int64(what + ".offset")
        size = r.int32(what + ".size")
        if size < 0:
            raise ParseError("%s: negative message size %d" % (what, size))
        if allow_partial and size > r.remaining():
            break
        raw = r.raw(size, what + ".message")
        m = parse_message(raw, "%s[%d]" % (what, len(out)), depth, wrapper_magic, strict_inner)
        m["offset"] = off
        out.append(m)
    return out


def flatten_messages(parsed_set):
    """Logical messages of a parsed set in order, compressed wrappers expanded
    one level: list of dict(magic, key, value, timestamp, offset, wrapped)."""
    out = []
    for m in parsed_set:
        if m["inner"] is None:
            out.append(dict(magic=m["magic"], key=m["key"], value=m["value"], timestamp=m["timestamp"],
                            offset=m["offset"], wrapped=False, attributes=m["attributes"]))
        else:
            for i in m["inner"]:
                out.append(dict(magic=i["magic"], key=i["key"], value=i["value"], timestamp=i["timestamp"],
                                offset=i["offset"], wrapped=True, wrapper_offset=m["offset"],
                                attributes=i["attributes"], wrapper_codec=m["codec"]))
    return out


# ---------------------------------------------------------------------------
# requests: strict parser


def parse_request_header(r):
    api_key = r.int16("api_key")
    api_version = r.int16("api_version")
    correlation_id = r.int32("correlation_id")
    client_id = r.string("client_id", nullable=True)
    return dict(api_key=api_key, api_version=api_version, correlation_id=correlation_id, client_id=client_id)


def _group_tp(r, per_partition, topic_what="topic"):
    def topic(r):
        name = r.text(topic_what)
        parts = r.array(per_partition, topic_what + ".partitions")
        return dict(topic=name, partitions=parts)
    return r.array(topic, "topics")


def _check_unique_tp(topics, what):
    seen = set()
    for t in topics:
        for p in t["partitions"]:
            k = (t["topic"], p["partition"])
            if k in seen:
                raise ParseError("%s: duplicate topic-partition %r" % (what, k))
            seen.add(k)


def _p_produce(r, v):
    acks = r.int16("acks")
    timeout = r.int32("timeout")

    def part(r):
        p = r.int32("partition")
        rs = r.bytes_("record_set", nullable=False)
        ms = parse_message_set(rs, "record_set")
        for m in ms:
            # message format 1 (timestamps) exists from Produce v2 on; v2 still accepts format 0
            if m["magic"] > (1 if v >= 2 else 0):
                raise ParseError("Produce v%d carries magic %d message" % (v, m["magic"]))
        return dict(partition=p, record_set=rs, messages=ms)
    topics = _group_tp(r, part)
    _check_unique_tp(topics, "Produce")
    return dict(acks=acks, timeout=timeout, topics=topics)


def _p_fetch(r, v):
    replica_id = r.int32("replica_id")
    max_wait = r.int32("max_wait_ms")
    min_bytes = r.int32("min_bytes")

    def part(r):
        return dict(partition=r.int32("partition"), offset=r.int64("fetch_offset"), max_bytes=r.int32("max_bytes"))
    topics = _group_tp(r, part)
    _check_unique_tp(topics, "Fetch")
    return dict(replica_id=replica_id, max_wait_ms=max_wait, min_bytes=min_bytes, topics=topics)


def _p_list_offsets(r, v):
    replica_id = r.int32("replica_id")

    def part(r):
        return dict(partition=r.int32("partition"), timestamp=r.int64("timestamp"),
                    max_num_offsets=r.int32("max_num_offsets"))
    topics = _group_tp(r, part)
    _check_unique_tp(topics, "ListOffsets")
    return dict(replica_id=replica_id, topics=topics)


def _p_metadata(r, v):
    return dict(topics=r.array(lambda r: r.text("topic"), "topics"))


def _p_offset_commit(r, v):
    group = r.text("group")
    generation = r.int32("generation")
    member = r.text("member")

    def part(r):
        return dict(partition=r.int32("partition"), offset=r.int64("offset"), timestamp=r.int64("timestamp"),
                    metadata=r.string("metadata", nullable=True))
    topics = _group_tp(r, part)
    _check_unique_tp(topics, "OffsetCommit")
    return dict(group=group, generation=generation, member=member, topics=topics)


def _p_offset_fetch(r, v):
    group = r.text("group")

    def part(r):
        return dict(partition=r.int32("partition"))
    topics = _group_tp(r, part)
    _check_unique_tp(topics, "OffsetFetch")
    return dict(group=group, topics=topics)


def _p_find_coordinator(r, v):
    return dict(group=r.text("group"))


def _p_join_group(r, v):
    group = r.text("group")
    session_timeout = r.int32("session_timeout")
    member = r.text("member")
    protocol_type = r.text("protocol_type")

    def proto(r):
        return dict(name=r.text("protocol.name"), metadata=r.bytes_("protocol.metadata", nullable=False))
    protocols = r.array(proto, "protocols")
    return dict(group=group, session_timeout=session_timeout, member=member, protocol_type=protocol_type,
                protocols=protocols)


def _p_heartbeat(r, v):
    return dict(group=r.text("group"), generation=r.int32("generation"), member=r.text("member"))


def _p_leave_group(r, v):
    return dict(group=r.text("group"), member=r.text("member"))


def _p_sync_group(r, v):
    group = r.text("group")
    generation = r.int32("generation")
    member = r.text("member")

    def asg(r):
        return dict(member=r.text("assignment.member"), assignment=r.bytes_("assignment.bytes", nullable=False))
    assignments = r.array(asg, "assignments")
    return dict(group=group, generation=generation, member=member, assignments=assignments)


def _p_api_versions(r, v):
    return dict()


_REQUEST_PARSERS = {
    API_PRODUCE: _p_produce, API_FETCH: _p_fetch, API_LIST_OFFSETS: _p_list_offsets, API_METADATA: _p_metadata,
    API_OFFSET_COMMIT: _p_offset_commit, API_OFFSET_FETCH: _p_offset_fetch,
    API_FIND_COORDINATOR: _p_find_coordinator, API_JOIN_GROUP: _p_join_group, API_HEARTBEAT: _p_heartbeat,
    API_LEAVE_GROUP: _p_leave_group, API_SYNC_GROUP: _p_sync_group, API_VERSIONS: _p_api_versions,
}


def parse_request(msg):
    """Strict parse of one unframed request.  Returns dict(header..., body=dict).
    Raises ParseError."""
    r = Reader(msg)
    h = parse_request_header(r)
    k, v = h["api_key"], h["api_version"]
    if k not in _REQUEST_PARSERS:
        raise ParseError("unknown api key %d" % k)
    if v not in KNOWN_VERSIONS[k]:
        raise ParseError("%s: version %d is not one the reference knows (%r)" % (API_NAMES[k], v, KNOWN_VERSIONS[k]))
    body = _REQUEST_PARSERS[k](r, v)
    r.done("%s v%d request" % (API_NAMES[k], v))
    h["api_name"] = API_NAMES[k]
    h["body"] = body
    return h


# consumer embedded protocol


def parse_subscription(data):
    r = Reader(data)
    version = r.int16("version")
    topics = r.array(lambda r: r.text("topic"), "topics")
    user_data = r.bytes_("user_data")
    r.done("subscription")
    return dict(version=version, topics=topics, user_data=user_data)


def encode_subscription(topics, version=0, user_data=b""):
    return w_int16(version) + w_array(topics, w_string) + w_bytes(user_data)


def parse_assignment(data):
    r = Reader(data)
    version = r.int16("version")

    def t(r):
        return (r.text("topic"), r.array(lambda r: r.int32("partition"), "partitions"))
    topics = r.array(t, "topics")
    user_data = r.bytes_("user_data")
    r.done("assignment")
    return dict(version=version, topics=topics, user_data=user_data)


def encode_assignment(topic_partitions, version=0, user_data=b""):
    """topic_partitions: list of (topic, [partitions])"""
    return (w_int16(version)
            + w_array(list(topic_partitions), lambda tp: w_string(tp[0]) + w_array(tp[1], w_int32))
            + w_bytes(user_data))


# ---------------------------------------------------------------------------
# requests: encoders (used by the self test and by harness-side clients)


def encode_request_header(api_key, api_version, correlation_id, client_id):
    return w_int16(api_key) + w_int16(api_version) + w_int32(correlation_id) + w_string(client_id)


def encode_request(api_key, api_version, correlation_id, client_id, body):
    """body: same dict shape parse_request returns"""
    h = encode_request_header(api_key, api_version, correlation_id, client_id)
    b = body
    if api_key == API_PRODUCE:
        out = w_int16(b["acks"]) + w_int32(b["timeout"]) + w_array(
            b["topics"], lambda t: w_string(t["topic"]) + w_array(
                t["partitions"], lambda p: w_int32(p["partition"]) + w_bytes(p["record_set"])))
    elif api_key == API_FETCH:
        out = w_int32(b["replica_id"]) + w_int32(b["max_wait_ms"]) + w_int32(b["min_bytes"]) + w_array(
            b["topics"], lambda t: w_string(t["topic"]) + w_array(
                t["partitions"], lambda p: w_int32(p["partition"]) + w_int64(p["offset"]) + w_int32(p["max_bytes"])))
    elif api_key == API_LIST_OFFSETS:
        out = w_int32(b["replica_id"]) + w_array(
            b["topics"], lambda t: w_string(t["topic"]) + w_array(
                t["partitions"], lambda p: w_int32(p["partition"]) + w_int64(p["timestamp"])
                + w_int32(p["max_num_offsets"])))
    elif api_key == API_METADATA:
        out = w_array(b["topics"], w_string)
    elif api_key == API_OFFSET_COMMIT:
        out = w_string(b["group"]) + w_int32(b["generation"]) + w_string(b["member"]) + w_array(
            b["topics"], lambda t: w_string(t["topic"]) + w_array(
                t["partitions"], lambda p: w_int32(p["partition"]) + w_int64(p["offset"]) + w_int64(p["timestamp"])
                + w_string(p["metadata"])))
    elif api_key == API_OFFSET_FETCH:
        out = w_string(b["group"]) + w_array(
            b["topics"], lambda t: w_string(t["topic"]) + w_array(t["partitions"], lambda p: w_int32(p["partition"])))
    elif api_key == API_FIND_COORDINATOR:
        out = w_string(b["group"])
    elif api_key == API_JOIN_GROUP:
        out = (w_string(b["group"]) + w_int32(b["session_timeout"]) + w_string(b["member"])
               + w_string(b["protocol_type"])
               + w_array(b["protocols"], lambda p: w_string(p["name"]) + w_bytes(p["metadata"])))
    elif api_key == API_HEARTBEAT:
        out = w_string(b["group"]) + w_int32(b["generation"]) + w_string(b["member"])
    elif api_key == API_LEAVE_GROUP:
        out = w_string(b["group"]) + w_string(b["member"])
    elif api_key == API_SYNC_GROUP:
        out = (w_string(b["group"]) + w_int32(b["generation"]) + w_string(b["member"])
               + w_array(b["assignments"], lambda a: w_string(a["member"]) + w_bytes(a["assignment"])))
    elif api_key == API_VERSIONS:
        out = b""
    else:
        raise ValueError(api_key)
    return h + out


# ---------------------------------------------------------------------------
# responses: encoders.  All take correlation_id first and return the unframed
# response.  "topics" arguments are lists so that the caller controls order.


def resp_produce(correlation_id, topics, version=0, throttle_ms=0):
    """topics: [(topic, [(partition, error, base_offset[, log_append_time])])]"""
    def part(p):
        out = w_int32(p[0]) + w_int16(p[1]) + w_int64(p[2])
        if version >= 2:
            out += w_int64(p[3] if len(p) > 3 else -1)
        return out
    out = w_int32(correlation_id) + w_array(topics, lambda t: w_string(t[0]) + w_array(t[1], part))
    if version >= 1:
        out += w_int32(throttle_ms)
    return out


def resp_fetch(correlation_id, topics, version=0, throttle_ms=0):
    """topics: [(topic, [(partition, error, high_watermark, record_set_bytes)])]"""
    out = w_int32(correlation_id)
    if version >= 1:
        out += w_int32(throttle_ms)
    out += w_array(topics, lambda t: w_string(t[0]) + w_array(
        t[1], lambda p: w_int32(p[0]) + w_int16(p[1]) + w_int64(p[2]) + w_bytes(p[3])))
    return out


def resp_list_offsets(correlation_id, topics):
    """topics: [(topic, [(partition, error, [offsets])])]"""
    return w_int32(correlation_id) + w_array(topics, lambda t: w_string(t[0]) + w_array(
        t[1], lambda p: w_int32(p[0]) + w_int16(p[1]) + w_array(p[2], w_int64)))


def resp_metadata(correlation_id, brokers, topics):
    """brokers: [(node_id, host, port)]
    topics: [(error, name, [(perror, partition, leader, [replicas], [isr])])]"""
    return (w_int32(correlation_id)
            + w_array(brokers, lambda b: w_int32(b[0]) + w_string(b[1]) + w_int32(b[2]))
            + w_array(topics, lambda t: w_int16(t[0]) + w_string(t[1]) + w_array(
                t[2], lambda p: w_int16(p[0]) + w_int32(p[1]) + w_int32(p[2]) + w_array(p[3], w_int32)
                + w_array(p[4], w_int32))))


def resp_offset_commit(correlation_id, topics):
    """topics: [(topic, [(partition, error)])]"""
    return w_int32(correlation_id) + w_array(topics, lambda t: w_string(t[0]) + w_array(
        t[1], lambda p: w_int32(p[0]) + w_int16(p[1])))


def resp_offset_fetch(correlation_id, topics):
    """topics: [(topic, [(partition, offset, metadata, error)])]"""
    return w_int32(correlation_id) + w_array(topics, lambda t: w_string(t[0]) + w_array(
        t[1], lambda p: w_int32(p[0]) + w_int64(p[1]) + w_string(p[2]) + w_int16(p[3])))


def resp_find_coordinator(correlation_id, error, node_id, host, port):
    return w_int32(correlation_id) + w_int16(error) + w_int32(node_id) + w_string(host) + w_int32(port)


def resp_join_group(correlation_id, error, generation, protocol, leader, member, members):
    """members: [(member_id, metadata_bytes)]"""
    return (w_int32(correlation_id) + w_int16(error) + w_int32(generation) + w_string(protocol)
            + w_string(leader) + w_string(member)
            + w_array(members, lambda m: w_string(m[0]) + w_bytes(m[1])))


def resp_sync_group(correlation_id, error, assignment):
    return w_int32(correlation_id) + w_int16(error) + w_bytes(assignment)


def resp_heartbeat(correlation_id, error):
    return w_int32(correlation_id) + w_int16(error)


def resp_leave_group(correlation_id, error):
    return w_int32(correlation_id) + w_int16(error)


def resp_api_versions(correlation_id, error, versions):
    """versions: [(api_key, min, max)]"""
    return w_int32(correlation_id) + w_int16(error) + w_array(
        versions, lambda v: w_int16(v[0]) + w_int16(v[1]) + w_int16(v[2]))


# ---------------------------------------------------------------------------
# self test: encode -> parse identity on the reference's own output


def selftest():
    import random
    rng = random.Random(12345)
    n = 0
    for _ in range(300):
        magic = rng.choice((0, 1))
        msgs = []
        for i in range(rng.randint(1, 5)):
            k = rng.choice((None, b"", bytes(rng.getrandbits(8) for _ in range(rng.randint(1, 9)))))
            v = rng.choice((None, b"", bytes(rng.getrandbits(8) for _ in range(rng.randint(1, 40)))))
            ts = rng.randint(-1, 2 ** 40) if magic else None
            msgs.append((k, v, ts))
        entries = [(100 + i, encode_message(k, v, magic, 0, ts)) for i, (k, v, ts) in enumerate(msgs)]
        if rng.random() < 0.5:
            inner = [((i if magic else 100 + i), m) for i, (_, m) in enumerate(entries)]
            entries = [encode_wrapper(inner, 100 + len(inner) - 1, magic=magic, timestamp=7 if magic else None)]
        rs = encode_message_set(entries)
        flat = flatten_messages(parse_message_set(rs))
        assert [(m["key"], m["value"], m["timestamp"]) for m in flat] == msgs, (flat, msgs)
        body = dict(acks=rng.choice((0, 1, -1)), timeout=rng.randint(0, 2 ** 31 - 1),
                    topics=[dict(topic="t%d" % j, partitions=[dict(partition=p, record_set=rs)
                                                                for p in range(rng.randint(0, 3))])
                            for j in range(rng.randint(0, 3))])
        raw = encode_request(API_PRODUCE, 2 if magic else 0, rng.randint(0, 2 ** 31 - 1),
                             rng.choice((None, b"", b"cid")), body)
        p = parse_request(raw)
        assert p["body"]["acks"] == body["acks"]
        assert [[q["record_set"] for q in t["partitions"]] for t in p["body"]["topics"]] == \
            [[q["record_set"] for q in t["partitions"]] for t in body["topics"]]
        # corrupted CRC / trailing byte / truncation must be rejected
        for bad in (raw + b"\0", raw[:-1]):
            try:
                parse_request(bad)
            except ParseError:
                pass
            else:
                if body["topics"] and any(t["partitions"] for t in body["topics"]) or bad is not raw[:-1]:
                    raise AssertionError("reference parser accepted malformed request")
        n += 1
    simple = [
        (API_FETCH, 0, dict(replica_id=-1, max_wait_ms=100, min_bytes=1,
                            topics=[dict(topic="a", partitions=[dict(partition=0, offset=5, max_bytes=10)])])),
        (API_LIST_OFFSETS, 0, dict(replica_id=-1, topics=[dict(topic="a", partitions=[
            dict(partition=1, timestamp=-2, max_num_offsets=1)])])),
        (API_METADATA, 0, dict(topics=["x", "y"])),
        (API_OFFSET_COMMIT, 1, dict(group="g", generation=3, member="m", topics=[dict(topic="a", partitions=[
            dict(partition=0, offset=9, timestamp=-1, metadata=None)])])),
        (API_OFFSET_FETCH, 1, dict(group="g", topics=[dict(topic="a", partitions=[dict(partition=0)])])),
        (API_FIND_COORDINATOR, 0, dict(group="g")),
        (API_JOIN_GROUP, 0, dict(group="g", session_timeout=1, member="", protocol_type="consumer",
                                 protocols=[dict(name="consumer", metadata=encode_subscription(["a"]))])),
        (API_HEARTBEAT, 0, dict(group="g", generation=1, member="m")),
        (API_LEAVE_GROUP, 0, dict(group="g", member="m")),
        (API_SYNC_GROUP, 0, dict(group="g", generation=1, member="m", assignments=[
            dict(member="m", assignment=encode_assignment([("a", [0, 1])]))])),
        (API_VERSIONS, 0, dict()),
    ]
    for k, v, body in simple:
        raw = encode_request(k, v, 77, b"c", body)
        p = parse_request(raw)
        assert p["body"] == body, (p["body"], body)
        for bad in (raw + b"\0", raw[:-1]):
            try:
                parse_request(bad)
            except ParseError:
                continue
            raise AssertionError("reference parser accepted malformed %s" % API_NAMES[k])
        n += 1
    assert parse_assignment(encode_assignment([("a", [0, 1])]))["topics"] == [("a", [0, 1])]
    assert parse_subscription(encode_subscription(["a", "b"]))["topics"] == ["a", "b"]
    return n


if __name__ == "__main__":
    print("refproto selftest ok: %d cases" % selftest())

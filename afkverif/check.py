"""CLI:  python -m afkverif.check C07 [--tier quick|thorough] [--replay FILE]

Shards the property's cases over worker subprocesses, aggregates what the
monitors saw, writes evidence/<id>.json and replays/, prints the verdict.

exit 0  held on everything explored (known findings, if any, are listed)
exit 1  VIOLATION property=<id> replay=<path>   (a violation not in known_findings.json)
exit 2  INCONCLUSIVE (reach thresholds not met / worker died / watchdog)
"""
import argparse
import importlib
import json
import os
import shutil
import subprocess
import sys
import time

from .core import VERIF_DIR, afkak_src, dump, ensure_afkak_on_path


def load_known():
    path = os.path.join(VERIF_DIR, "known_findings.json")
    if not os.path.exists(path):
        return []
    with open(path) as f:
        return json.load(f).get("findings", [])


def run_workers(prop, specs, jobs, case_timeout, shard_timeout, debug=False):
    run_dir = os.path.join(VERIF_DIR, "build", "run-%s-%d" % (prop, os.getpid()))
    os.makedirs(run_dir, exist_ok=True)
    jobs = max(1, min(jobs, len(specs)))
    shards = [specs[k::jobs] for k in range(jobs)]
    procs = []
    env = dict(os.environ)
    env["PYTHONHASHSEED"] = "0"
    env["PYTHONPATH"] = afkak_src() + os.pathsep + VERIF_DIR + os.pathsep + env.get("PYTHONPATH", "")
    env["PYTHONWARNINGS"] = "ignore"
    for k, sh in enumerate(shards):
        sp = os.path.join(run_dir, "shard%d.json" % k)
        op = os.path.join(run_dir, "out%d.json" % k)
        with open(sp, "w") as f:
            json.dump(dict(specs=sh, case_timeout=case_timeout, debug=debug), f)
        lp = open(os.path.join(run_dir, "log%d.txt" % k), "w")
        p = subprocess.Popen([sys.executable, "-m", "afkverif.worker", prop, sp, op], cwd=VERIF_DIR, env=env,
                             stdout=lp, stderr=subprocess.STDOUT)
        procs.append((p, op, lp, k, len(sh)))
    results = []
    problems = []
    deadline = time.time() + shard_timeout
    for p, op, lp, k, n in procs:
        try:
            p.wait(timeout=max(1, deadline - time.time()))
        except subprocess.TimeoutExpired:
            p.kill()
            p.wait()
            problems.append("shard %d (%d cases) exceeded the %ds wall-clock watchdog" % (k, n, shard_timeout))
        lp.close()
        if os.path.exists(op):
            with open(op) as f:
                results.extend(json.load(f)["results"])
        else:
            tail = ""
            try:
                with open(os.path.join(run_dir, "log%d.txt" % k)) as f:
                    tail = f.read()[-1500:]
            except Exception:
                pass
            problems.append("shard %d (%d cases) produced no result (exit %s): %s" % (k, n, p.returncode, tail))
    shutil.rmtree(run_dir, ignore_errors=True)
    return results, problems


def main(argv=None):
    ap = argparse.ArgumentParser()
    ap.add_argument("prop")
    ap.add_argument("--tier", default=os.environ.get("VERIF_TIER") or "quick")
    ap.add_argument("--replay")
    ap.add_argument("--jobs", type=int, default=int(os.environ.get("VERIF_JOBS", "0")) or (os.cpu_count() or 4))
    ap.add_argument("--limit", type=int, default=0, help="debug: only the first N cases")
    ap.add_argument("--case", type=int, default=None, help="debug: only case i, in-process")
    ap.add_argument("--no-evidence", action="store_true")
    a = ap.parse_args(argv)
    prop = a.prop.upper()
    tier = a.tier if a.tier in ("quick", "thorough") else "quick"
    try:
        seed = int(os.environ.get("VERIF_SEED", "0") or 0)
    except ValueError:
        seed = 0
    ensure_afkak_on_path()
    mod = importlib.import_module("afkverif.props.%s" % prop.lower())
    t0 = time.time()

    if a.replay:
        with open(a.replay) as f:
            rp = json.load(f)
        from .worker import run_shard
        res = run_shard(prop, [rp["spec"]], 600, debug=True)
        print(json.dumps(res[0], indent=1)[:20000])
        bad = [v for v in res[0]["violations"]]
        for v in bad:
            print("REPLAY-VIOLATION property=%s key=%s %s" % (prop, v["key"], v["msg"]))
        return 1 if bad else 0

    if hasattr(mod, "prepare"):
        mod.prepare()
    specs = mod.cases(tier, seed)
    for i, s in enumerate(specs):
        s.setdefault("i", i)
    if a.limit:
        specs = specs[:a.limit]
    if a.case is not None:
        from .worker import run_shard
        res = run_shard(prop, [s for s in specs if s["i"] == a.case], 600, debug=True)
        print(json.dumps(res, indent=1)[:30000])
        return 0

    case_timeout = getattr(mod, "CASE_TIMEOUT", 120)
    shard_timeout = getattr(mod, "SHARD_TIMEOUT", {"quick": 600, "thorough": 7200})[tier]
    results, problems = run_workers(prop, specs, a.jobs, case_timeout, shard_timeout)

    known = [k for k in load_known() if k.get("property") == prop]
    known_keys = {k["key"]: k for k in known if k.get("status") == "known"}

    n_eval = len(results)
    n_sub = 0
    sigs = set()
    obligations, reach, events = {}, {}, {}
    samples = []
    by_key = {}
    inconcl = list(problems)
    by_i = {s["i"]: s for s in specs}
    for r in results:
        if r.get("sig"):
            sigs.add(r["sig"])
        sigs.update(r.get("sigs") or ())
        n_sub += r.get("n_sub") or 0
        for k, v in r.get("obligations", {}).items():
            obligations[k] = obligations.get(k, 0) + v
        for k, v in r.get("reach", {}).items():
            reach[k] = max(reach.get(k, 0), v) if k.startswith("max_") else reach.get(k, 0) + v
        for k, v in r.get("events", {}).items():
            events[k] = events.get(k, 0) + v
        if r.get("sample") is not None and len(samples) < 3:
            samples.append(r["sample"])
        for v in r.get("violations", []):
            by_key.setdefault(v["key"], []).append((r["i"], v))
        for why in r.get("inconclusive", []):
            inconcl.append("case %s: %s" % (r.get("i"), why))

    # reach thresholds
    for name, per_tier in getattr(mod, "REACH_MIN", {}).items():
        need = per_tier.get(tier, 0) if isinstance(per_tier, dict) else per_tier
        if a.limit:
            continue
        if reach.get(name, 0) < need:
            inconcl.append("reach %s=%d below the required %d" % (name, reach.get(name, 0), need))

    os.makedirs(os.path.join(VERIF_DIR, "replays"), exist_ok=True)
    import glob
    for old_file in glob.glob(os.path.join(VERIF_DIR, "replays", "%s-%d-%s-*.json" % (prop, seed, tier))):
        try:
            os.remove(old_file)
        except OSError:
            pass
    unknown = []
    known_hit = []
    for n, (key, lst) in enumerate(sorted(by_key.items())):
        i, v = lst[0]
        path = os.path.join(VERIF_DIR, "replays", "%s-%d-%s-%d.json" % (prop, seed, tier, n))
        dump(dict(property=prop, key=key, msg=v["msg"], witness=v.get("witness"), spec=by_i.get(i), cases=len(lst),
                  case_indexes=[x[0] for x in lst[:50]]), path)
        if key in known_keys:
            known_hit.append((key, len(lst), v["msg"], path))
        else:
            unknown.append((key, len(lst), v["msg"], path))

    wall = time.time() - t0
    level = getattr(mod, "LEVEL", "exploration")
    coverage = dict(
        evaluations=(n_sub or n_eval),
        cases=n_eval,
        distinct_nontrivial=len(sigs),
        rule=getattr(mod, "RULE", ""),
        samples=samples or ["(no sample recorded)"],
        obligations_by_clause=obligations,
        reach=reach,
        events_observed=events,
        known_findings_seen=[dict(key=k, cases=c) for k, c, _, _ in known_hit],
        unlisted_violation_keys=[dict(key=k, cases=c) for k, c, _, _ in unknown],
        inconclusive=inconcl[:20],
        afkak_src=afkak_src(),
        jobs=a.jobs,
    )
    if hasattr(mod, "coverage_extra"):
        coverage.update(mod.coverage_extra(tier, seed, results))
    ev = dict(property_id=prop, tier=tier, seed=seed, level=level, coverage=coverage,
              assumptions=getattr(mod, "ASSUMPTIONS", []), wall_s=round(wall, 2),
              violations=sum(c for _, c, _, _ in unknown))
    if not a.no_evidence and not a.limit:
        os.makedirs(os.path.join(VERIF_DIR, "evidence"), exist_ok=True)
        dump(ev, os.path.join(VERIF_DIR, "evidence", "%s.json" % prop))

    print("%s tier=%s seed=%d: %d cases, %d distinct non-trivial, %d obligations checked, %.1fs" % (
        prop, tier, seed, (n_sub or n_eval), len(sigs), sum(obligations.values()), wall))
    print("  obligations: " + ", ".join("%s=%d" % kv for kv in sorted(obligations.items())))
    if reach:
        print("  reach: " + ", ".join("%s=%d" % kv for kv in sorted(reach.items())))
    for key, c, msg, path in known_hit:
        print("KNOWN-FINDING: property=%s %s (%s; %d cases; replay=%s)" % (prop, known_keys[key].get("what", msg), key,
                                                                         c, os.path.relpath(path, VERIF_DIR)))
    for key, c, msg, path in unknown:
        print("VIOLATION property=%s replay=%s" % (prop, path))
        print("  key=%s cases=%d: %s" % (key, c, msg))
    if unknown:
        return 1
    if inconcl:
        for why in inconcl[:10]:
            print("INCONCLUSIVE property=%s reason=%s" % (prop, why[:600]))
        return 2
    print("HELD property=%s on everything explored" % prop)
    return 0


if __name__ == "__main__":
    sys.exit(main())

"""C03 -- commits never run ahead of successfully processed messages."""
import random

from ..core import Result, sig
from ..engines import cons
from . import c02

ID = "C03"
LEVEL = "fault_enumeration"
RULE = ("each evaluation is one run: a full consumer scenario with a consumer group (count- and time-triggered "
        "auto-commit settings, manual commits, processor successes / failures / slow completions, commit faults, "
        "stop/shutdown + restart), or the same scenario cut short by process death after the k-th client write "
        "(every k for scenarios with <= 60 writes, sampled otherwise) followed by a fresh client and consumer "
        "started from the committed position. distinct = distinct (scenario, crash point, event-order signature); "
        "non-trivial = at least one commit was issued or a committed position was resumed from")
ASSUMPTIONS = ["the moment a commit is 'issued' is the consumer's call into KafkaClient.send_offset_commit_request "
               "(stamped by a harness wrapper)", "afkak's convention: committed value = last processed offset, resume "
               "at the first message after it", "process death = every connection severed and every pending delayed "
               "call of the client dropped at that instant"]
REACH_MIN = {"commits_issued": {"quick": 600, "thorough": 12000},
             "commit_retries": {"quick": 10, "thorough": 200},
             "processor_failures": {"quick": 40, "thorough": 800},
             "crash_points": {"quick": 515, "thorough": 10300},
             "resumes_from_committed": {"quick": 400, "thorough": 8000},
             "manual_commit_calls": {"quick": 60, "thorough": 1200},
             "scenarios_fully_enumerated": {"quick": 12, "thorough": 240}}


def cases(tier, seed):
    n = {"quick": 90, "thorough": 3000}[tier]
    return [dict(seed=seed * 1000003 + 300000 + i) for i in range(n)]


def check_commits(res, tr):
    """Clauses 1, 2, 3 (state read at quiescent points is collected by the run hook), 5."""
    log = tr.w.net.log
    cfg = tr.sc["cfg"]
    S = set()
    D = set()
    lp = None
    outstanding = 0
    failed_blocks = []
    cancelled_blocks = []
    start_failed_reported = False
    reported_blocks = []  # prefix of failed_blocks whose failure has been followed by a failing start Deferred
    for idx, ev in enumerate(log):
        k = ev[0]
        if k == "start":
            start_failed_reported = False
        elif k == "start_fired":
            if not ev[2]:
                start_failed_reported = True
                reported_blocks.extend(failed_blocks[len(reported_blocks):])
        elif k == "proc_call":
            D.update(ev[3])
        elif k == "proc_done":
            call = tr.calls[ev[2]]
            if ev[3]:
                offs = [m[0] for m in call["msgs"]]
                S.update(offs)
                if offs:
                    lp = offs[-1]
            else:
                res.hit("processor_failures")
                if start_failed_reported and len(reported_blocks) == len(failed_blocks):
                    # this incarnation's start Deferred has already failed: the application knows (the listed
                    # finding's history - the consumer carried on)
                    reported_blocks.append([m[0] for m in call["msgs"]])
                failed_blocks.append([m[0] for m in call["msgs"]])
        elif k == "proc_cancelled":
            cancelled_blocks.append([m[0] for m in tr.calls[ev[2]]["msgs"]])
        elif k == "commit_issued":
            v = ev[2]
            res.hit("commits_issued")
            outstanding += 1
            if outstanding > 1:
                res.violate("concurrent-commits/two-commit-requests-outstanding", "a commit request was issued while "
                            "another one of this consumer was still outstanding", value=v)
            res.ob("one_commit_outstanding")
            if v != lp:
                what = "ahead-of" if (lp is None or v > lp) else "behind"
                res.violate("commit-value/%s-last-processed" % what, "commit issued with offset %r while the last "
                            "successfully processed offset is %r" % (v, lp))
            unprocessed = sorted(o for o in D if o <= v and o not in S)
            if unprocessed:
                if any(o in blk for blk in failed_blocks for o in unprocessed):
                    # the listed finding: the failure was reported on the start Deferred and the application did not
                    # stop the consumer.  A failure the application was never told about is something else.
                    silent = [blk for blk in failed_blocks[len(reported_blocks):] if any(o in blk for o in unprocessed)]
                    mech = "processing-continues-after-processor-failure" if not silent \
                        else "processor-failure-never-reported-on-start-deferred"
                elif any(o in blk for blk in cancelled_blocks for o in unprocessed):
                    mech = "block-cancelled-by-stop-then-later-block-processed"
                else:
                    mech = "block-still-in-progress"
                res.violate("commit-past-unprocessed/%s" % mech, "offset %d was committed although delivered "
                            "offset(s) %r <= it were not successfully processed" % (v, unprocessed[:6]))
            res.ob("commit_only_processed")
        elif k == "commit_request_done":
            outstanding = max(0, outstanding - 1)
    # on the wire: an OffsetCommit frame is written only while the commit request it belongs to is outstanding (a
    # request the client has given up -- timed out, cancelled by stop() -- must not reach the coordinator later and
    # move the stored position back)
    from .. import refproto as R_
    spans = []
    for idx, ev in enumerate(log):
        if ev[0] == "commit_issued":
            spans.append([ev[2], idx, None])
        elif ev[0] == "commit_request_done":
            for sp in reversed(spans):
                if sp[2] is None:
                    sp[2] = idx
                    break
    for idx, ev in enumerate(log):
        if ev[0] != "c2s":
            continue
        try:
            pr = R_.parse_request(ev[3][4:])
        except Exception:
            continue
        if pr["api_name"] != "OffsetCommit":
            continue
        for t_ in pr["body"]["topics"]:
            for p_ in t_["partitions"]:
                v = p_["offset"]
                res.hit("commit_frames_checked")
                if not any(sp[0] == v and sp[1] <= idx and (sp[2] is None or idx <= sp[2]) for sp in spans):
                    res.violate("commit-frame/written-after-its-request-ended", "an OffsetCommit frame carrying %r was "
                                "written when no commit request for that value was outstanding (values ever issued: "
                                "%r)" % (v, [sp[0] for sp in spans][-6:]))
                res.ob("commit_frame_belongs_to_a_live_request")
    # retries
    vals = [e["value"] for e in tr.commit_issues]
    res.hit("commit_retries", sum(1 for a, b in zip(tr.commit_issues, tr.commit_issues[1:])
                                  if a["fires"] and not a["fires"][0][1]))
    # 5 commit() Deferreds
    for cm in tr.commits:
        res.hit("manual_commit_calls")
        if cm.get("raised"):
            res.violate("commit-call-raised/%s" % cm["raised"], "commit() raised")
            continue
        if len(cm["fires"]) > 1:
            res.violate("commit-deferred-fired-twice", "a Deferred returned by commit() fired twice", fires=cm["fires"])
        elif cm["fires"]:
            t, ok, val = cm["fires"][0]
            if ok and val is not None and not isinstance(val, int):
                res.violate("commit-deferred/wrong-value", "commit() Deferred fired with %r" % (val,))
        res.ob("commit_deferred_once")


def run_full(sc, res):
    acked = set([None])
    reported = set()
    bad_state = []

    def quiesce(tr):
        c = tr.consumer
        # refresh acknowledged / reported values from server events seen so far
        log = tr.w.net.log
        i = quiesce.pos
        while i < len(log):
            ev = log[i]
            if ev[0] == "srv" and ev[2] == "OffsetCommit" and ev[3]["replied"] == "sent":
                for r in ev[3]["result"] or []:
                    if r["error"] == 0:
                        acked.add(r["offset"])
            elif ev[0] == "srv" and ev[2] == "OffsetFetch" and ev[3]["replied"] == "sent":
                for r in ev[3]["result"] or []:
                    if r["error"] == 0 and r["offset"] != -1:
                        reported.add(r["offset"])
            i += 1
        quiesce.pos = i
        v = c.last_committed_offset
        quiesce.n += 1
        if v not in acked and v not in reported and len(bad_state) < 3:
            bad_state.append((tr.w.clock.seconds(), v))
    quiesce.pos = 0
    quiesce.n = 0
    tr = cons.run_scenario(sc, hooks=dict(quiesce=quiesce))
    if tr.capped and cons.report_spin(res, tr):
        return
    if tr.capped:
        res.inconclusive.append("scenario aborted: %s" % getattr(tr, "cap_reason", "?"))
        return tr
    check_commits(res, tr)
    if bad_state:
        res.violate("last-committed-offset/never-acknowledged-value", "Consumer.last_committed_offset held %r, which "
                    "the coordinator neither acknowledged nor reported" % (bad_state[0][1],), t=bad_state[0][0])
    res.ob("last_committed_is_acknowledged", quiesce.n)
    c02.check_stream(res, tr)
    for e in tr.w.clock.errors:
        if e[2] == "AlreadyCalledError":
            res.violate("fired-twice/AlreadyCalledError", e[3][-400:])
        else:
            res.ev("diag_reactor_event_raised_" + e[2])
    return tr


def crash_and_resume(sc, k, res):
    """Run until the k-th client write, kill the process, start a fresh consumer from COMMITTED."""
    w = cons.build_world(sc)
    tr = cons.run_scenario(sc, world=w, crash_after_write=k)
    if not getattr(tr, "crashed_at", None):
        return False
    res.hit("crash_points")
    res.n_sub += 1
    cl = w.cluster
    # the first incarnation's commits obey clause 1 up to the crash
    check_commits(res, tr)
    # --- process death
    for c in list(w.net.conns):
        if not c.client_lost:
            c._c2s_dead = True
            c.server_gone = True
            c.client_lost = True
            w.net.open_conns.discard(c)
    for dc in list(w.clock.getDelayedCalls()):
        lab = getattr(dc.func, "sim_label", None)
        if lab is None or not lab.startswith(("srv.", "fault.")):
            if dc.active():
                dc.cancel()
    w.net.pending_attempts.clear()
    # the resume clause is judged on a healthy cluster: broker outages of the first life end with it
    for dc in list(w.clock.getDelayedCalls()):
        if getattr(dc.func, "sim_label", "").startswith(("fault.stop_broker", "fault.start_broker")) and dc.active():
            dc.cancel()
    for n_, b_ in cl.brokers.items():
        if not b_.up:
            cl.start_broker(n_)
    stored = cl.offsets.get((cons.GROUP, cons.TOPIC, cons.PART))
    # --- second incarnation
    delivered = []

    def processor(consumer, msgs):
        delivered.extend(m.offset for m in msgs)
        return None
    client2 = w.client(timeout=int(sc["cfg"]["timeout"] * 1000),
                       enable_protocol_version_discovery=sc["cfg"]["discovery"])
    sc2 = dict(sc)
    sc2["cfg"] = dict(sc["cfg"], max_attempts=0)
    c2 = cons.make_consumer(w, client2, sc2, processor)
    from afkak import OFFSET_COMMITTED
    w.net.log.append(("second_start", w.clock.seconds()))
    cl.faults.rules = []
    if (sc["seed"] + k) % 3 == 0:
        # the coordinator is still loading when the new incarnation asks where to resume
        cl.faults.add(dict(api="OffsetFetch", nth=[0], action=dict(kind="error", code=(14, 15, 16)[(sc["seed"] + k) % 9 // 3])))
        res.hit("resume_with_coordinator_error_first")
    d = c2.start(OFFSET_COMMITTED)
    d.addErrback(lambda f: None)
    try:
        w.run(until=w.clock.seconds() + 12.0, max_steps=60000, stop=lambda: len(delivered) >= 1)
    except Exception as e:
        res.inconclusive.append("resume run aborted: %r" % (e,))
        return True
    lg = cl.log(cons.TOPIC, cons.PART)
    all_offs = lg.offsets_from(0)  # record offsets (a wrapper with nothing left in it holds none)
    res.hit("resumes_from_committed")
    if stored is not None:
        c = stored[0]
        want = [o for o in all_offs if o > c and o >= lg.log_start]
        if want:
            if not delivered:
                res.violate("resume/nothing-delivered", "after a restart from the committed position %d nothing was "
                            "delivered although offset %d exists" % (c, want[0]), k=k)
            elif delivered[0] != want[0]:
                what = "redelivers-committed" if delivered[0] <= c else "skips"
                res.violate("resume/%s" % what, "restart from committed offset %d delivered offset %d first, the "
                            "first message after the committed one is %d" % (c, delivered[0], want[0]), k=k)
        # no-skip: everything up to c had been processed successfully by the first incarnation
        S = set()
        for call in tr.calls:
            if call["ok"]:
                S.update(m[0] for m in call["msgs"])
        D = set(m[0] for call in tr.calls for m in call["msgs"])
        lost = sorted(o for o in D if o <= c and o not in S)
        failed_offs = set(m[0] for call in tr.calls if call["ok"] is False for m in call["msgs"])
        reported = any(not f[1] for st in tr.starts for f in st["fires"])
        mech = ("processing-continues-after-processor-failure" if reported else
                "processor-failure-never-reported-on-start-deferred") if lost and all(o in failed_offs for o in lost) \
            else "other"
        if lost and (sc["stored"] is None or c != sc["stored"]):
            res.violate("resume/committed-offset-covers-unprocessed-messages/%s" % mech, "the stored offset %d lies beyond "
                        "delivered message(s) %r that were never processed successfully: they are skipped after the "
                        "restart" % (c, lost[:5]), k=k)
        res.ob("resume_at_first_after_committed")
    else:
        if sc["cfg"]["reset"] == "latest":
            pass
        elif all_offs and delivered and delivered[0] != [o for o in all_offs if o >= lg.log_start][0]:
            res.violate("resume/no-stored-offset-not-from-earliest", "nothing stored, but the restarted consumer "
                        "began at %d" % delivered[0], k=k)
        res.ob("resume_policy_when_nothing_stored")
    try:
        c2.stop()
        client2.close()
        w.run(until=w.clock.seconds() + 1.0)
    except Exception:
        pass
    return True


def run(spec):
    res = Result()
    sc = cons.gen_scenario(spec["seed"], "commit")
    # the statement quantifies over restarts from the committed position (not over application rewinds)
    sc["actions"] = [a if a[1] != "restart" else [a[0], "restart", "committed"] for a in sc["actions"]]
    # a pre-stored offset at or beyond a numeric start position would describe an application rewind: keep the
    # history consistent with "everything up to the stored offset was processed by an earlier incarnation"
    if sc["start"][0] == "num" and sc["stored"] is not None and sc["stored"] >= sc["start"][1]:
        sc["stored"] = sc["start"][1] - 1 if sc["start"][1] >= 1 else None
    if sc["start"][0] in ("earliest", "latest") and sc["stored"] is not None:
        # likewise: starting at the log's end points although the group has a stored offset is an application
        # rewind / skip, outside "resume from the committed position"
        sc["stored"] = None
    if sc["cfg"]["reset"] == "latest":
        # with nothing committed, auto_offset_reset=LATEST skips to the end of the log by configuration: messages
        # delivered to an earlier life and never committed are then passed over on purpose, which is not what this
        # property is about
        sc["cfg"]["reset"] = "earliest"
    # coordinator errors on the commit / offset-fetch path itself (the generic generator draws them rarely)
    frng = random.Random(spec["seed"] ^ 0xE14)
    if sc["cfg"]["group"] and frng.random() < 0.5:
        for _ in range(frng.choice((1, 2))):
            sc["faults"].append(dict(api="OffsetCommit", nth=[frng.randint(0, 4)],
                                     action=dict(kind="error", code=frng.choice((14, 14, 15, 16, 7)))))
    if sc["cfg"]["group"] and frng.random() < 0.35:
        # the coordinator is unreachable for longer than the client timeout, then comes back: commits issued
        # meanwhile are abandoned by the client and must not surface later
        t1 = round(frng.uniform(0.2, 2.5), 3)
        sc["events"] = list(sc["events"]) + [[t1, "stop_broker", sc["brokers"][0]],
                                               [round(t1 + sc["cfg"]["timeout"] * frng.choice((1.3, 2.2, 3.5)), 3),
                                                "start_broker", sc["brokers"][0]]]
        sc["horizon"] = max(sc["horizon"], t1 + sc["cfg"]["timeout"] * 4 + 4)
    # keep crash scenarios small enough to enumerate often
    tr = run_full(sc, res)
    if tr.capped:
        return res
    res.n_sub += 1
    writes = sum(1 for ev in tr.w.net.log if ev[0] == "c2s")
    rng = random.Random(spec["seed"] ^ 0xC3A5)
    if writes <= 60:
        ks = list(range(1, writes + 1))
        res.hit("scenarios_fully_enumerated")
    else:
        ks = sorted(rng.sample(range(1, writes + 1), 10))
    for k in ks:
        crash_and_resume(sc, k, res)
    if tr.commit_issues or sc["stored"] is not None:
        res.sig = sig(spec["seed"], tuple(tr.w.clock.trace[:2500]))
        res.sigs.add(res.sig)
        for k in ks:
            res.sigs.add(sig(spec["seed"], "crash", k))
    res.sample = dict(config=sc["cfg"], start=sc["start"], stored=sc["stored"], processor=sc["procs"][:6],
                      faults=sc["faults"], actions=sc["actions"], client_writes=writes,
                      crash_points=(ks if len(ks) <= 12 else ks[:12] + ["..."]), exhaustive_crash_points=writes <= 60,
                      commits=[(round(e["t"], 4), e["value"]) for e in tr.commit_issues][:12])
    return res


def coverage_extra(tier, seed, results):
    n = sum(r.get("reach", {}).get("scenarios_fully_enumerated", 0) for r in results)
    return dict(exhaustive=False, exhaustive_note="crash points are enumerated exhaustively (every client write) in %d "
                "scenarios with <= 60 writes; sampled (10 per scenario) in the others" % n)

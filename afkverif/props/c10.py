"""C10 -- after a connection drop, unanswered requests are re-sent once, in order.

Online-style checker replayed over the unified event log of a broker-client
scenario (harness calls, connection attempts, client writes per connection,
connection losses, quiescent-point markers).
"""
from ..core import Result, sig
from ..engines import bc

ID = "C10"
LEVEL = "fault_enumeration"
RULE = ("each evaluation is one broker-client scenario: generated (requests, cancels, disconnects, close, server "
        "behaviour, connect outcomes, cuts) or an enumerated cut point (every byte offset of the first connection in "
        "either direction, cut while connecting, cut during back-off n) of a small fixed script; distinct = distinct "
        "(scenario shape, executed event-order signature); non-trivial = at least one connection was lost or refused "
        "while a request was live")
ASSUMPTIONS = ["a connect loop that is already backing off keeps going when its last queued request is cancelled "
               "meanwhile: not counted as 're-opening an idle connection' (the weaker reading, DESIGN section 3/C10)",
               "retry policy injected by the harness is a deterministic function f(n) with distinct values per n"]
REACH_MIN = {"drops_with_live_requests": {"quick": 197, "thorough": 2672},
             "resent_requests": {"quick": 284, "thorough": 3852},
             "refused_attempts": {"quick": 167, "thorough": 2265},
             "idle_drops": {"quick": 40, "thorough": 542},
             "closes_checked": {"quick": 300, "thorough": 4069}}

ENUM_BYTES = 130


def cases(tier, seed):
    n = {"quick": 500, "thorough": 12000}[tier]
    out = [dict(kind="gen", seed=seed * 1000003 + 7000000 + i) for i in range(n)]
    # enumerated cut points on small fixed scripts
    bases = {"quick": 1, "thorough": 6}[tier]
    step = {"quick": 3, "thorough": 1}[tier]
    for b in range(bases):
        for direction in ("c2s", "s2c"):
            for k in range(0, ENUM_BYTES, step):
                out.append(dict(kind="enum", seed=seed * 31 + b, cut=[direction, k]))
        for nref in range(0, 4):
            out.append(dict(kind="enum", seed=seed * 31 + b, refuse=nref, cut=["time", 0.0]))
            out.append(dict(kind="enum", seed=seed * 31 + b, refuse=nref, cut=None, blackhole_then_close=True))
            # connect failures delivered synchronously (the endpoint's Deferred has fired before it is returned)
            out.append(dict(kind="enum", seed=seed * 31 + b, refuse=nref + 1, sync=True, cut=["time", 0.0]))
            out.append(dict(kind="enum", seed=seed * 31 + b, refuse=nref + 1, sync=True, cut=None, close_in_backoff=True))
            # a configured back-off far above anything afkak might think reasonable: f(n) is the caller's business
            out.append(dict(kind="enum", seed=seed * 31 + b, refuse=nref + 1, sync=bool(nref % 2), cut=["time", 0.0],
                            policy=[(16.0, 2.5), (31.0, 0.0), (7.0, 6.0), (61.0, 1.0)][nref]))
    npat = {"quick": 240, "thorough": 6000}[tier]
    out += [dict(kind="pattern", seed=seed * 1000037 + i) for i in range(npat)]
    return out


def enum_scenario(spec):
    import random
    rng = random.Random(spec["seed"])
    variant = dict(n_req=3, latency=0.0, chunk="whole", end="heal")
    connect = ["accept"] + ["refuse"] * spec.get("refuse", 0) + ["accept"] * 6
    if spec.get("sync"):
        connect = ["refuse_sync" if k % 2 == 0 else "refuse" for k in range(spec.get("refuse", 0))] + ["accept"] * 6
    if spec.get("close_in_backoff"):
        connect = ["refuse_sync"] * 12
        variant["end"] = "close"
    if spec.get("blackhole_then_close"):
        connect = ["refuse"] * spec.get("refuse", 0) + ["blackhole"]
        variant["end"] = "close"
    variant["connect"] = connect
    variant["cuts"] = {"0": spec["cut"]} if spec.get("cut") else {}
    sc = bc.gen_scenario(spec["seed"] + 911, variant)
    # simplify: all answers now, nothing injected, one optional cancel kept
    sc["behaviour"] = [[i, n, ["now"] if (rng.random() < 0.7 or n > 0) else ["delay", 0.4]]
                       for i in sc["ids"] + sc["extra_ids"] for n in range(3)]
    sc["injections"] = []
    sc["actions"] = [a for a in sc["actions"] if a[1] in ("req", "cancel")]
    if spec.get("policy"):
        sc["retry_base"], sc["retry_step"] = spec["policy"]
    return sc


def check_log(res, tr):
    sc = tr.sc
    if tr.capped:
        res.inconclusive.append("step cap exceeded")
        return
    f = tr.retry.value
    live = []  # ids in issue order: issued, not fired, not cancelled
    written = {}  # conn id -> set of ids written on it
    cur = None  # current connection id (up from the client's point of view)
    cur_closing = False
    pending_attempt = False
    backoff_until = None
    fails = 0
    closed = False
    close_fired = 0
    idle_dropped = False  # connection lost while nothing was live; no attempt allowed until the next issue
    ever_connected = False
    last_refused_t = None
    nontrivial = False
    ever_written = set()
    noreply = set(r for r, rec in tr.reqs.items() if not rec["expect"])
    EPS = 1e-9
    for idx, ev in enumerate(tr.net.log):
        kind = ev[0]
        t = ev[1]
        if kind == "issue":
            rid = ev[2]
            if not closed:
                live.append(rid)
            idle_dropped = False
        elif kind == "cancel":
            if ev[2] in live:
                live.remove(ev[2])
        elif kind == "fire":
            if ev[2] in live:
                live.remove(ev[2])
        elif kind == "connect":
            if closed:
                res.violate("close/connect-attempt-after-close", "a connection attempt was made after close()", t=t)
            if idle_dropped:
                res.violate("reconnect/idle-connection-reopened-without-request", "the connection dropped while no "
                            "request was outstanding, yet a new attempt was made before the next request", t=t)
            if backoff_until is not None:
                if abs(t - backoff_until) > EPS:
                    res.violate("reconnect/backoff-not-f(n)", "attempt after %d consecutive failure(s) came %.6fs "
                                "after the failure, policy says %.6fs" % (fails, t - last_refused_t, f(fails)),
                                fails=fails)
                res.ob("backoff_exact")
            pending_attempt = True
            backoff_until = None
        elif kind == "refused":
            pending_attempt = False
            fails += 1
            last_refused_t = t
            backoff_until = t + f(fails)
            res.hit("refused_attempts")
            if live:
                nontrivial = True
        elif kind == "connect_cancelled":
            pending_attempt = False
        elif kind == "connected":
            pending_attempt = False
            fails = 0
            cur = ev[2]
            cur_closing = False
            written[cur] = set()
            ever_connected = True
        elif kind == "c2s":
            cid = ev[2]
            rid = bc.req_id_of(ev[3][4:])
            if cid != cur:
                res.violate("write-on-dead-connection", "bytes written on a connection that is not the current one",
                            conn=cid, current=cur)
                continue
            if rid in written[cid]:
                res.violate("resend/twice-on-one-connection", "a request was written twice on the same connection",
                            rid=rid, conn=cid)
            elif rid not in live and rid not in ever_written:
                # first transmission of a request that was cancelled / failed by close() from inside a callback
                # while the queue was being flushed: a defect (see C20), but the statement here speaks of requests
                # being RE-sent, so it is only recorded
                res.ev("diag_first_send_of_no_longer_live_request")
            elif rid not in live:
                rec = tr.reqs.get(rid, {})
                why = ("cancelled" if rec.get("cancelled") is not None and rec["cancelled"] <= t else
                       "no-reply-already-written" if rid in noreply and rid in ever_written else
                       "already-answered" if rec.get("fires") else "unknown")
                res.violate("resend/%s-request-sent" % why, "a request that is no longer live was written to a "
                            "connection", rid=rid, conn=cid, t=t)
            else:
                # order: among requests being RE-sent (already written on an earlier connection) the original
                # issue order must be kept.  Requests that reach the wire for the first time are only required to
                # be live and written once (a request issued from inside a no-reply request's completion callback
                # while the queue is being flushed legitimately overtakes requests queued during the outage; the
                # statement speaks of re-sent requests only).
                if rid in ever_written:
                    unsent = [r for r in live if r not in written[cid] and r in ever_written]
                    if unsent and unsent[0] != rid:
                        res.violate("resend/out-of-issue-order", "re-sent requests were not written in the order "
                                    "originally issued", wrote=rid, expected_first=unsent[0], conn=cid)
                    res.hit("resent_requests")
                    res.ob("resend_in_issue_order")
                res.ob("write_is_live_once_in_order")
            written[cid].add(rid)
            ever_written.add(rid)
        elif kind == "client_close":
            if ev[2] == cur:
                cur_closing = True
        elif kind == "conn_lost":
            if ev[2] == cur:
                cur = None
                if live and not closed:
                    res.hit("drops_with_live_requests")
                    nontrivial = True
                elif not closed:
                    idle_dropped = True
                    res.hit("idle_drops")
        elif kind == "close_call":
            closed = True
            idle_dropped = False
            backoff_until = None
            live_at_close = list(live)
        elif kind == "close_fired":
            close_fired += 1
            if tr.net.open_conns or tr.net.pending_attempts:
                # open_conns is end-state; use log position instead
                pass
            still_open = cur is not None
            if still_open or pending_attempt:
                res.violate("close/deferred-fired-before-connection-gone", "close()'s Deferred fired while the "
                            "connection was still up or an attempt pending", t=t)
            res.ob("close_fires_after_connection_gone")
        elif kind == "quiesce":
            if closed:
                if live:
                    res.violate("close/pending-request-not-failed", "a request was still pending after close() "
                                "returned", rids=live[:4])
                    live = []
                if pending_attempt:
                    res.violate("close/attempt-not-cancelled", "a connection attempt survived close()", t=t)
                    pending_attempt = False
                continue
            if cur is not None and not cur_closing:
                missing = [r for r in live if r not in written[cur]]
                if missing:
                    res.violate("resend/live-request-not-written", "connection is up but an unanswered, uncancelled "
                                "request was not (re)written on it", rids=missing[:4], conn=cur, t=t)
                elif live:
                    res.ob("all_live_written")
            elif cur is None and live:
                if not pending_attempt and (backoff_until is None or backoff_until < t - EPS):
                    res.violate("reconnect/live-request-but-no-connection-activity", "requests are outstanding but "
                                "there is no connection, no attempt and no back-off pending", rids=live[:4], t=t,
                                ever_connected=ever_connected)
                else:
                    res.ob("reconnecting_while_live")
    if tr.close_called is not None:
        res.hit("closes_checked")
        if tr.close_raised:
            res.violate("close/raised", "close() raised %s" % tr.close_raised)
        elif close_fired != 1:
            res.violate("close/deferred-fired-%d-times" % close_fired, "close()'s Deferred must fire exactly once",
                        fired=tr.close_fired)
        res.ob("close_once")
    # an answered request is not sent again: once a complete frame bearing its id has been handed to the client on a
    # connection it had been written to, the request must not be written anywhere later
    import struct as _st
    writes = {}
    for c in tr.net.conns:
        for (wt, rid, _f) in bc.client_frames(c):
            writes.setdefault(rid, []).append((wt, c.id))
    for c in tr.net.conns:
        for (ft, frame) in bc.delivered_frames(c):
            if len(frame) < 4:
                continue
            rid = _st.unpack(">i", frame[:4])[0]
            w_here = [wt for (wt, cid) in writes.get(rid, ()) if cid == c.id and wt <= ft]
            if not w_here or rid not in tr.reqs:
                continue
            later = [(wt, cid) for (wt, cid) in writes.get(rid, ()) if wt > ft + 1e-9 and cid != c.id]
            if later:
                res.violate("resend/answered-request-sent-again", "a complete reply to the request was delivered to the "
                            "client at %.4f (connection %d), yet the request was written again at %.4f (connection %d)"
                            % (ft, c.id, later[0][0], later[0][1]), rid=rid)
            res.ob("answered_not_resent")
    if nontrivial:
        res.sig = sig(sc["end"], len(sc["ids"]), sc.get("cuts"), tuple(tr.clock.trace))
    if res.sample is None:
        res.sample = dict(scenario={k: sc[k] for k in ("ids", "actions", "connect", "cuts", "end")},
                          per_connection_writes={str(c.id): [rid for _t, rid, _f in bc.client_frames(c)]
                                                 for c in tr.net.conns},
                          attempts=[a.as_tuple() for a in tr.net.attempts][:12])


def run(spec):
    res = Result()
    if spec["kind"] == "enum":
        sc = enum_scenario(spec)
        res.hit("enumerated_cut_points")
        if spec.get("policy"):
            res.hit("long_backoff_policies")
    elif spec["kind"] == "pattern":
        sc = bc.pattern_scenario(spec["seed"])
        res.hit("pattern_" + sc["pattern"])
    else:
        sc = bc.gen_scenario(spec["seed"], spec.get("variant"))
    tr = bc.run_scenario(sc)
    check_log(res, tr)
    return res


def coverage_extra(tier, seed, results):
    n = sum(r.get("reach", {}).get("enumerated_cut_points", 0) for r in results)
    return dict(enumerated_cut_scenarios=n, exhaustive=False,
                exhaustive_note="cut points (byte offsets 0..%d in each direction, while connecting, during back-off "
                                "1..3) are enumerated for the fixed small scripts only" % ENUM_BYTES)

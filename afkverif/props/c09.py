"""C09 -- per-partition send order is preserved and retries are disciplined.

Oracle over the sequence of produce requests the client wrote (parsed by the
independent codec), the responses delivered to it, the cluster's per-partition
results and the final partition logs."""
import sys

from ..core import Result, sig
from ..engines import prod

ID = "C09"
LEVEL = "exploration"
RULE = ("each evaluation is one producer scenario (as C01) or one zero-latency timing scenario; the oracle walks the "
        "produce requests in the order they were written. distinct = distinct (configuration, fault trace, "
        "event-order signature); non-trivial = some produce attempt failed or two batches were dispatched")
ASSUMPTIONS = ["a request re-written by the broker client after a reconnect (same correlation id) is the same attempt",
               "a re-send after a lost or late acknowledgement is legitimate; duplicates in the log are then expected",
               "retry timers are observed at the injected reactor's callLater (calls made from afkak.producer)",
               "'the batch resolves' is observed at Producer._complete_batch_send (wrapped from the harness)"]
REACH_MIN = {"retried_attempts": {"quick": 97, "thorough": 1640},
             "mixed_outcome_attempts": {"quick": 40, "thorough": 676},
             "second_batches": {"quick": 200, "thorough": 3381},
             "retry_timers": {"quick": 150, "thorough": 2536},
             "batches_resolved": {"quick": 400, "thorough": 6763},
             "leader_moves": {"quick": 60, "thorough": 1014},
             "acks0_partial_failures": {"quick": 15, "thorough": 253}}


def cases(tier, seed):
    n = {"quick": 300, "thorough": 9000}[tier]
    out = [dict(seed=seed * 1000003 + 900000 + i, profile="general") for i in range(n)]
    nt = {"quick": 100, "thorough": 2500}[tier]
    out += [dict(seed=seed * 1000003 + 950000 + i, profile="timing") for i in range(nt)]
    nm = {"quick": 150, "thorough": 4000}[tier]
    out += [dict(seed=seed * 1000003 + 970000 + i, profile="mixed") for i in range(nm)]
    return out


def instrument(tr_holder):
    """Hooks installed before the run: producer timers and batch resolution."""
    pass


def run(spec):
    res = Result()
    sc = prod.gen_scenario(spec["seed"], spec.get("profile", "general"))
    timers = []
    resolved = []

    def pre(w, producer):
        orig_call_later = w.clock.callLater

        def call_later(delay, fn, *a, **kw):
            caller = sys._getframe(1).f_globals.get("__name__", "")
            if caller == "afkak.producer":
                timers.append((w.clock.seconds(), delay))
                w.net.log.append(("producer_timer", w.clock.seconds(), delay))
            return orig_call_later(delay, fn, *a, **kw)
        w.clock.callLater = call_later
        orig_complete = producer._complete_batch_send

        def complete(resp):
            resolved.append(w.clock.seconds())
            w.net.log.append(("batch_resolved", w.clock.seconds()))
            return orig_complete(resp)
        producer._complete_batch_send = complete
        orig_spr = producer.client.send_produce_request

        def send_produce_request(payloads=None, *a, **kw):
            w.net.log.append(("produce_call", w.clock.seconds(), len(payloads or ())))
            return orig_spr(payloads, *a, **kw)
        producer.client.send_produce_request = send_produce_request
        orig_send_requests = producer._send_requests

        def send_requests(parts_results, requests):
            ds = [id(r.deferred) for r in requests if not r.deferred.called]
            w.net.log.append(("batch_dispatch", w.clock.seconds(), ds))
            return orig_send_requests(parts_results, requests)
        producer._send_requests = send_requests
    tr = run_with_hooks(sc, pre)
    check(res, tr, timers, resolved)
    return res


def run_with_hooks(sc, pre):
    """prod.run_scenario with a hook that runs right after the Producer is built."""
    import afkak
    orig = afkak.Producer
    box = {}

    class Hooked(orig):
        def __init__(self, client, *a, **kw):
            orig.__init__(self, client, *a, **kw)
            box["p"] = self
    # the engine does `from afkak import Producer`: swap the attribute for the duration of the run
    afkak.Producer = Hooked
    try:
        from ..engines import world as W
        orig_client = W.World.client

        def client(self, *a, **kw):
            c = orig_client(self, *a, **kw)
            box["w"] = self
            return c
        W.World.client = client
        try:
            # Producer construction happens inside run_scenario; install hooks lazily on first send
            orig_send = orig.send_messages

            def send_messages(self_, *a, **kw):
                if not box.get("hooked"):
                    box["hooked"] = True
                    pre(box["w"], self_)
                return orig_send(self_, *a, **kw)
            Hooked.send_messages = send_messages
            return prod.run_scenario(sc)
        finally:
            W.World.client = orig_client
    finally:
        afkak.Producer = orig


def check(res, tr, timers, resolved):
    sc = tr.sc
    cfg = sc["cfg"]
    cl = tr.cluster
    if tr.capped:
        res.inconclusive.append("scenario aborted: %s" % getattr(tr, "cap_reason", "?"))
        return
    reqs = prod.produce_requests(tr)
    log = tr.w.net.log
    delivered = prod.delivered_responses(tr)
    T = cfg["timeout"]
    fire_idx = {}
    for i, ev in enumerate(log):
        if ev[0] == "fire":
            fire_idx.setdefault(ev[2], i)
    nontrivial = False
    res.hit("leader_moves", sum(1 for e in sc["events"] if e[1] == "move"))
    # group writes by correlation id (= attempt)
    attempts = []  # in order of first write
    by_corr = {}
    for r in reqs:
        if tr.stop_called is not None and r["t"] >= tr.stop_called - 1e-9:
            continue  # what happens once stop() has been called is C19's subject
        if r["corr"] in by_corr:
            by_corr[r["corr"]]["writes"].append(r)
            continue
        a = dict(corr=r["corr"], first=r, writes=[r], payloads=r["payloads"])
        by_corr[r["corr"]] = a
        attempts.append(a)
    ev_by = {}
    for e in cl.history:
        if e.get("api") == "Produce" and "req" in e:
            ev_by.setdefault(e["corr"], []).append(e)
    seen_sends = set()
    msg_attempts = {}
    for a in attempts:
        sends_here = []
        for tp, recs in sorted(a["payloads"].items()):
            # 1a order inside a payload, contiguity
            ids = []
            for (k, v) in recs:
                s = prod.send_of(k, v)
                ids.append(s)
            known = [s for s in ids if s is not None]
            if known != sorted(known):
                res.violate("order/payload-not-in-send-order", "messages inside one payload are not in the order the "
                            "sends were made", tp=tp, sends=ids)
            for s in set(known):
                want = [(tr.sends[s]["key"], m) for m in tr.sends[s]["msgs"]] if s in tr.sends else None
                got = [(k, v) for (k, v) in recs if prod.send_of(k, v) == s]
                if want is not None and got != want:
                    kind = "duplicated-in-payload" if len(got) > len(want) else "messages-missing-or-reordered"
                    res.violate("payload/%s" % kind, "a send's messages are not carried exactly once, in order, in "
                                "its payload", send=s, got=got[:6], want=want[:6])
                i0 = ids.index(s)
                if ids[i0:i0 + ids.count(s)] != [s] * ids.count(s):
                    res.violate("order/send-not-contiguous-in-payload", "a send's messages are interleaved with "
                                "another send's", tp=tp, sends=ids)
                sends_here.append((s, tp))
            res.ob("payload_order")
        # 2 one payload per attempt
        ss = [s for s, tp in sends_here]
        if len(ss) != len(set(ss)):
            res.violate("payload/send-in-two-payloads-of-one-request", "a send appears in two payloads of one "
                        "request", sends=ss)
        res.ob("one_payload_per_attempt")
        for s, tp in sends_here:
            msg_attempts.setdefault(s, []).append(a["corr"])
        # (retries vs new batches are told apart below, from the producer's own batch dispatches)
        new = [x for x in set(ss) if x not in seen_sends]
        if not new:
            res.hit("retried_attempts")
            nontrivial = True
        seen_sends.update(ss)
    # 3 batch exclusion: when the producer hands a batch to the client, every send of every earlier batch is resolved
    by_d = dict((id(r["d"]), s_) for s_, r in tr.sends.items() if r["d"] is not None)
    batch_of = {}
    dispatched = []
    for i, ev in enumerate(log):
        if ev[0] != "batch_dispatch":
            continue
        members = sorted(by_d[d] for d in ev[2] if d in by_d)
        if dispatched:
            res.hit("second_batches")
            nontrivial = True
            unfired = [x for b_ in dispatched for x in b_[1] if x not in fire_idx or fire_idx[x] > i]
            if unfired:
                res.violate("batch-exclusion/later-batch-dispatched-while-earlier-unresolved", "a batch was handed "
                            "to the client while sends of an earlier batch had not been resolved", new=members,
                            unresolved=sorted(unfired), t=ev[1])
            res.ob("batch_exclusion")
        for x in members:
            batch_of[x] = len(dispatched)
        dispatched.append((i, members))
    batches = [m for _i, m in dispatched]
    # 5b attempt bound at the producer -> client boundary (attempts that fail before reaching the wire count too)
    calls = 0
    for ev in log:
        if ev[0] == "batch_dispatch":
            calls = 0
        elif ev[0] == "produce_call":
            calls += 1
            if calls == cfg["max_req_attempts"] + 1:
                res.violate("attempt-bound/more-client-calls-than-configured", "the producer asked the client to send "
                            "a batch more than max_req_attempts=%d times" % cfg["max_req_attempts"], t=ev[1])
            res.ob("attempt_bound_client_calls")
    # 5 attempt bound
    for s, corrs in msg_attempts.items():
        if len(set(corrs)) > cfg["max_req_attempts"]:
            res.violate("attempt-bound/more-attempts-than-configured", "a send's messages were written in %d distinct "
                        "produce requests, max_req_attempts=%d" % (len(set(corrs)), cfg["max_req_attempts"]), send=s)
        res.ob("attempt_bound")
    # bursts: the requests of one client call.  A new burst starts when the producer hands over a batch or when one
    # of its retry timers expires (requests of one call may be written at different times while connections come up)
    bounds = [i for i, ev in enumerate(log) if ev[0] == "batch_dispatch"]
    for ev in log:
        if ev[0] == "producer_timer":
            te = ev[1] + ev[2]
            for i, ev2 in enumerate(log):
                if ev2[1] >= te - 1e-9:
                    bounds.append(i)
                    break
    bounds.sort()

    call_idx = [(i, ev[1]) for i, ev in enumerate(log) if ev[0] == "produce_call"]

    def burst_of(a_):
        i_ = a_["first"]["idx"]
        if call_idx:
            # the client call the frame belongs to: the last one made before it was written (a call's requests may
            # be written long after the call, once a connection comes up, and other producer timers may expire in
            # between - a partition lookup being retried - without a new call being made)
            return sum(1 for (ci, _t) in call_idx if ci <= i_)
        return sum(1 for b_ in bounds if b_ <= i_)

    def call_time(a_):
        """When the producer made the client call this request belongs to: the earliest moment the client's timeout
        for it can have started (the frame may have been written much later, once a connection came up)."""
        t_ = a_["first"]["t"]
        for i_, tc in call_idx:
            if i_ <= a_["first"]["idx"]:
                t_ = tc
        return min(t_, a_["first"]["t"])
    for a_ in attempts:
        a_["burst"] = burst_of(a_)
        a_["call_t"] = call_time(a_)
    # reach: bursts (client calls) in which one payload was acknowledged while a sibling failed
    per_burst = {}
    for a_ in attempts:
        ok_, bad_ = per_burst.setdefault(a_["burst"], [0, 0])
        got = False
        for e2 in ev_by.get(a_["corr"], []):
            td2 = delivered.get((e2["conn"], e2["corr"]))
            if e2["replied"] == "sent" and td2 is not None and td2 < a_["call_t"] + T - 1e-9:
                got = True
                for r2 in e2["result"] or []:
                    per_burst[a_["burst"]][0 if r2["error"] == 0 else 1] += 1
                break
        if not got and cfg["acks"] != 0:
            per_burst[a_["burst"]][1] += 1
    res.hit("mixed_outcome_attempts", sum(1 for ok_, bad_ in per_burst.values() if ok_ and bad_))
    # 4' the same for acks=0, where "acknowledged" can only mean "handed to the connection": a payload that reached
    # its broker while a sibling broker's request failed is neither sent again nor held back until the sibling's retry
    if cfg["acks"] == 0:
        for ai, a in enumerate(attempts):
            for tp, recs in a["payloads"].items():
                my_sends = sorted(set(s for s in (prod.send_of(k, v) for (k, v) in recs) if s is not None))
                if not my_sends:
                    continue
                later = [b for b in attempts[ai + 1:] if b["burst"] > a["burst"] and any(
                    prod.send_of(k, v) in my_sends for recs2 in b["payloads"].values() for (k, v) in recs2)]
                for s in my_sends:
                    rec = tr.sends.get(s)
                    if rec is None or (rec["cancelled"] is not None):
                        continue
                    mates = [x for x, b_ in batch_of.items() if b_ == batch_of.get(s)]
                    nxt = [b for b in attempts[ai + 1:] if b["burst"] > a["burst"] and any(
                        prod.send_of(k, v) in mates for recs2 in b["payloads"].values() for (k, v) in recs2)]
                    if not nxt:
                        continue
                    res.hit("acks0_partial_failures")
                    if later:
                        res.violate("acks0-written-payload-resent", "acks=0: a payload that had reached its broker was "
                                    "written again when a sibling's request was retried", tp=tp, sends=my_sends)
                    elif fire_idx.get(s, 10 ** 9) > nxt[0]["first"]["idx"]:
                        res.violate("acks0-written-not-reported-at-once", "acks=0: the payload of send %r reached its "
                                    "broker in the first attempt, a sibling partition's request failed, and the send "
                                    "was reported only after the sibling's retry had been written (or never)" % s,
                                    tp=tp, fired=bool(rec["fires"]))
                    res.ob("acks0_written_reported_at_once")
    # 4 only failed payloads are retried; acknowledged ones reported at once
    for ai, a in enumerate(attempts):
        evs = ev_by.get(a["corr"], [])
        got_ack = None
        for e in evs:
            td = delivered.get((e["conn"], e["corr"]))
            if e["replied"] == "sent" and td is not None and td < a["call_t"] + T - 1e-9:
                got_ack = (e, td)
                break
        if got_ack is None or cfg["acks"] == 0:
            continue
        e, td = got_ack
        results = {(r["topic"], r["partition"]): r for r in e["result"]}
        codes = sorted(set(r["error"] for r in results.values()))
        for tp, r in results.items():
            if r["error"] != 0 or tp not in a["payloads"]:
                continue
            my_sends = sorted(set(s for s in (prod.send_of(k, v) for (k, v) in a["payloads"][tp]) if s is not None))
            later = [b for b in attempts[ai + 1:] if any(
                prod.send_of(k, v) in my_sends for recs in b["payloads"].values() for (k, v) in recs)]
            if later:
                burst_codes = set()
                for b in attempts:
                    if b["burst"] == a["burst"]:
                        for e2 in ev_by.get(b["corr"], []):
                            burst_codes.update(r2["error"] for r2 in (e2["result"] or []))
                other_codes = [c for c in sorted(burst_codes) if c != 0]
                if any(c not in (3, 6) for c in other_codes):
                    mech = "non-metadata-error-code-in-same-call"
                elif other_codes:
                    mech = "metadata-error-code-in-same-call"
                else:
                    mech = "all-partitions-acknowledged"
                # was a later whole-request failure what re-queued it?
                res.violate("acked-payload-resent/%s" % mech, "a payload whose error-free acknowledgement the client "
                            "had received was written again in a later produce request", tp=tp, sends=my_sends,
                            response_codes=codes, first_attempt_corr=a["corr"], resent_in=[b["corr"] for b in later])
            for s in my_sends:
                rec = tr.sends.get(s)
                if rec is None or not rec["fires"]:
                    continue
                if rec["cancelled"] is not None and rec["cancelled"] <= td:
                    continue
                # "at once": not held back until the batch's retries are over, i.e. it has fired before any later
                # attempt of the same batch is written
                mates = [x for x, b_ in batch_of.items() if b_ == batch_of.get(s)]
                nxt = [b for b in attempts[ai + 1:] if b["burst"] > a["burst"] and any(
                    prod.send_of(k, v) in mates for recs in b["payloads"].values() for (k, v) in recs)]
                if nxt and not later and fire_idx.get(s, 10 ** 9) > nxt[0]["first"]["idx"]:
                    res.violate("acked-not-reported-at-once", "a send whose payload was acknowledged without error "
                                "was only reported after its batch's next attempt had been written", send=s,
                                codes=codes)
            res.ob("acked_payload_not_resent")
    # 1b final logs: first occurrences in send order
    for key, lg in cl.logs.items():
        ids = []
        for (o, k, v, ts, magic, bid) in lg.all_records():
            s = prod.send_of(k, v)
            if s is not None and s not in ids:
                ids.append(s)
        if ids != sorted(ids):
            res.violate("order/log-not-in-send-order", "records of distinct sends are stored in another order than "
                        "the sends were made", partition=key, order=ids)
        if ids:
            res.ob("log_order")
    # 6 retry delays
    res.hit("retry_timers", len(timers))
    res.hit("batches_resolved", len(resolved))
    seq = []
    for ev in log:
        if ev[0] == "producer_timer":
            seq.append(("t", ev[2]))
        elif ev[0] == "batch_resolved":
            seq.append(("r", None))
    interval = cfg["retry_interval"]
    ratio = None
    prev = None
    for kind, d in seq:
        if kind == "r":
            prev = None
            continue
        if prev is None:
            if abs(d - interval) > 1e-9:
                res.violate("delay/first-retry-of-a-batch-not-the-configured-interval", "first retry delay of a batch "
                            "is %.6f, configured interval %.6f" % (d, interval))
        elif interval == 0:
            # a configured interval of zero: every retry is immediate (0 times any factor)
            if abs(d) > 1e-9:
                res.violate("delay/zero-interval-not-honoured", "retry delay %.6f with a configured interval of 0" % d)
        else:
            r = d / prev
            if r <= 1.0 + 1e-9:
                res.violate("delay/not-growing", "successive retry delays %.6f -> %.6f do not grow" % (prev, d))
            elif ratio is None:
                ratio = r
            elif abs(r - ratio) > 1e-6:
                res.violate("delay/not-geometric", "retry delays grow by %.6f then %.6f" % (ratio, r))
        res.ob("retry_delay")
        prev = d
    for e in tr.w.clock.errors:
        if e[2] == "AlreadyCalledError":
            res.violate("fired-twice/AlreadyCalledError", e[3][-400:])
        else:
            res.ev("diag_reactor_event_raised_" + e[2])
    if nontrivial:
        res.sig = sig(sorted(cfg.items(), key=str), [(f.get("nth"), f["action"].get("kind"), f["action"].get("code"))
                                                     for f in sc["faults"]], tuple(tr.w.clock.trace[:4000]))
    if res.sample is None:
        res.sample = dict(config=cfg, faults=sc["faults"], events=sc["events"],
                          attempts=[(round(a["first"]["t"], 4), a["corr"], {"%s/%d" % tp: sorted(set(
                              str(prod.send_of(k, v)) for k, v in recs)) for tp, recs in a["payloads"].items()})
                                    for a in attempts][:12],
                          retry_timers=timers[:10], batches=batches[:8])

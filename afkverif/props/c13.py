"""C13 -- consumer stop and shutdown leave nothing running and report once."""
import random

from twisted.python.failure import Failure

from .. import refproto as R
from ..core import Result, sig
from ..engines import cons
from . import c02

ID = "C13"
LEVEL = "exploration"
RULE = ("each evaluation is one (consumer scenario, stop point): the scenario is first run without stop to count its "
        "reactor events and to survey the situations the consumer passes through (resolving offsets, fetch "
        "outstanding, reply parked behind processing, processor pending, retry timer pending, commit in flight or in "
        "back-off, shutdown pending), then re-run with stop() or shutdown() injected after a drawn event index of "
        "each situation (also from inside the processor and from the start Deferred's errback), the outstanding "
        "replies are delivered, and the consumer is started again. distinct = distinct (scenario, situation at stop, "
        "event-order signature); non-trivial = the consumer was running when stopped")
ASSUMPTIONS = ["'fetch, commit or timer activity' = Fetch/ListOffsets/OffsetFetch/OffsetCommit frames written by the "
               "client and delayed calls bound to the consumer or to a LoopingCall it owns; metadata / bootstrap "
               "traffic of the shared client is not counted",
               "situations are classified from Consumer attributes for stratification only; verdicts use boundary "
               "observations"]
REACH_MIN = {"stop_points": {"quick": 431, "thorough": 7522},
             "sit_fetch_outstanding": {"quick": 60, "thorough": 1047},
             "sit_reply_parked": {"quick": 30, "thorough": 523},
             "sit_processor_pending": {"quick": 60, "thorough": 1047},
             "sit_retry_timer": {"quick": 10, "thorough": 174},
             "sit_commit_in_flight": {"quick": 30, "thorough": 523},
             "sit_resolving": {"quick": 30, "thorough": 523},
             "stop_from_processor": {"quick": 10, "thorough": 174},
             "shutdowns": {"quick": 150, "thorough": 2618},
             "restarts_checked": {"quick": 300, "thorough": 5236},
             "shutdown_then_stop": {"quick": 100, "thorough": 1745},
             "shutdown_commit_refused": {"quick": 100, "thorough": 1745}}

FETCHISH = ("Fetch", "ListOffsets", "OffsetFetch", "OffsetCommit")


def cases(tier, seed):
    n = {"quick": 110, "thorough": 3200}[tier]
    return [dict(seed=seed * 1000003 + 1300000 + i) for i in range(n)]


def situation(c):
    """Stratification only."""
    out = []
    rd = getattr(c, "_request_d", None)
    if getattr(c, "_start_d", None) is None:
        return ["not_running"]
    if getattr(c, "_shutdown_d", None) is not None:
        out.append("shutdown_pending")
    if rd is not None and not rd.called:
        out.append("resolving" if getattr(c, "_fetch_offset", 0) in (-1, -2, -101) else "fetch_outstanding")
    if rd is not None and rd.called and getattr(c, "_msg_block_d", None) is not None:
        out.append("reply_parked")
    if getattr(c, "_processor_d", None) is not None:
        out.append("processor_pending")
    rc = getattr(c, "_retry_call", None)
    if rc is not None and rc.active():
        out.append("retry_timer")
    if getattr(c, "_commit_req", None) is not None:
        out.append("commit_in_flight")
    cc = getattr(c, "_commit_call", None)
    if cc is not None and cc.active():
        out.append("commit_backoff")
    return out or ["idle_running"]


def run_once(sc, stop_at=None, how="stop", restart_after=1.0, stop_in_errback=False, then_stop=None, commit_fail=None,
             rewind_then_shutdown=False):
    info = dict(step0=None, survey={}, stop_sit=None, done=False, second=False)

    def built(tr):
        info["step0"] = tr.w.clock.steps

    def quiesce(tr):
        k = tr.w.clock.steps - info["step0"]
        c = tr.consumer
        if stop_at is None:
            for s_ in situation(c):
                info["survey"].setdefault(s_, []).append(k)
            return
        if rewind_then_shutdown and info["done"] and not info["second"] and len(tr.starts) >= 2 and \
                c._start_d is not None:
            st2 = tr.starts[-1]
            if any(c_["idx"] > st2["idx"] and c_["ok"] for c_ in tr.calls[-4:]):
                # the restarted consumer (sent back to an earlier offset) has processed something: shut it down too
                info["second"] = True
                info["second_t"] = tr.w.clock.seconds()
                tr.do["shutdown"]("outside")
                return
        if not info["done"] and k >= stop_at:
            info["done"] = True
            info["stop_sit"] = situation(c)
            if c._start_d is None:
                return
            if commit_fail is not None:
                # from now on the coordinator refuses every commit
                tr.cluster.faults.rules.insert(0, dict(api="OffsetCommit", _seen=0, until=tr.w.clock.seconds() + 60.0,
                                                       action=dict(kind="error", code=commit_fail)))
            if how == "stop":
                tr.do["stop"]("outside")
            else:
                tr.do["shutdown"]("outside")
                if then_stop is not None:
                    def stop_too():
                        if tr.consumer._start_d is not None:
                            tr.do["stop"]("after_shutdown")
                    tr.w.clock.labelled(then_stop, "call.stop_after_shutdown", cons.guard(stop_too, tr))
            tr.w.clock.labelled(restart_after, "call.restart", cons.guard(
                lambda: tr.do["restart"]("rewind" if rewind_then_shutdown else "next"), tr))

    def on_start_fired(tr, st, r):
        if stop_in_errback and isinstance(r, Failure) and tr.consumer._start_d is not None:
            info["stop_sit"] = ["from_start_errback"]
            tr.do["stop"]("start_errback")
            tr.w.clock.labelled(restart_after, "call.restart", cons.guard(lambda: tr.do["restart"]("next"), tr))
    def until(tr):
        # enough has been seen once the restarted consumer has delivered something (or 8 virtual seconds passed)
        if len(tr.starts) < 2:
            return False
        st = tr.starts[-1]
        if rewind_then_shutdown:
            if info["second"]:
                return tr.w.clock.seconds() > info["second_t"] + 4.0
            return tr.w.clock.seconds() > st["t"] + 8.0
        if any(c_["idx"] > st["idx"] for c_ in tr.calls[-3:]):
            return tr.w.clock.seconds() > st["t"] + 0.5
        return tr.w.clock.seconds() > st["t"] + 8.0
    tr = cons.run_scenario(sc, hooks=dict(built=built, quiesce=quiesce, on_start_fired=on_start_fired, until=until))
    tr.info = info
    return tr


def fetchish_writes(tr):
    """(log index, time, api) of consumer-related requests written by the client."""
    out = []
    for i, ev in enumerate(tr.w.net.log):
        if ev[0] != "c2s":
            continue
        try:
            pr = R.parse_request(ev[3][4:])
        except R.ParseError:
            continue
        if pr["api_name"] in FETCHISH:
            out.append((i, ev[1], pr["api_name"]))
    return out


def check(res, tr, how):
    sc = tr.sc
    cfg = sc["cfg"]
    log = tr.w.net.log
    if tr.capped and cons.report_spin(res, tr):
        return
    if tr.capped:
        res.inconclusive.append("scenario aborted: %s" % getattr(tr, "cap_reason", "?"))
        return
    res.n_sub += 1
    writes = fetchish_writes(tr)
    starts = tr.starts
    # ---- stop(): every stop call made on a running consumer
    for st in tr.stops:
        res.hit("stop_points")
        if st["origin"] == "inside":
            res.hit("stop_from_processor")
        if st["raised"]:
            was_running = any(s_["idx"] < st["idx"] for s_ in starts)
            if st["raised"] != "RestopError":
                res.violate("stop-raised/%s" % st["raised"], "stop() raised %s" % st["raised"], origin=st["origin"])
            res.ob("stop_returns")
            continue
        res.ob("stop_returns")
        # window: from stop() returning until the next start (or the end)
        nxt = [s_["idx"] for s_ in starts if s_["idx"] > st["ret_idx"]]
        end_idx = nxt[0] if nxt else len(log)
        # 1a no processor call in the window
        late_calls = [c_ for c_ in tr.calls if st["ret_idx"] < c_["idx"] < end_idx]
        if late_calls:
            first = late_calls[0]
            # mechanism: what was the consumer doing when it was stopped?
            sit = "+".join(tr.info.get("stop_sit") or ["?"]) if st["origin"] in ("outside", "start_errback") \
                else st["origin"]
            res.violate("processor-after-stop/%s" % sit, "the processor was invoked %.4fs after stop() had returned "
                        "(%d call(s))" % (first["t"] - st["returned"], len(late_calls)), origin=st["origin"],
                        offsets=[m[0] for m in first["msgs"]][:5])
        res.ob("no_processor_call_after_stop")
        # 1b no fetch / commit / offset request written in the window
        late_w = [w_ for w_ in writes if st["ret_idx"] < w_[0] < end_idx]
        if late_w:
            sit = "+".join(tr.info.get("stop_sit") or ["?"]) if st["origin"] in ("outside", "start_errback") \
                else st["origin"]
            res.violate("request-after-stop/%s/%s" % (late_w[0][2], sit), "%d consumer request(s) (%s) were written "
                        "after stop() had returned" % (len(late_w), sorted(set(x[2] for x in late_w))),
                        first_after=late_w[0][1] - st["returned"])
        res.ob("no_request_after_stop")
    # 1c no delayed call of the consumer remains while it is stopped: evaluated at the end when it ended stopped
    if not tr.end_state["running"]:
        mine = cons.consumer_delayed_calls(tr)
        if mine:
            res.violate("timer-left-after-stop", "delayed calls bound to the stopped consumer remain on the reactor",
                        calls=mine)
        res.ob("no_timer_left")
    # ---- start Deferreds fire exactly once
    for i, st in enumerate(starts):
        if st["raised"]:
            continue
        ended = any(s2["idx"] > st["idx"] and s2["raised"] is None for s2 in tr.stops) or \
            any(sh["fires"] for sh in tr.shutdowns if sh["idx"] > st["idx"])
        if len(st["fires"]) > 1:
            res.violate("start-deferred-fired-%d-times" % len(st["fires"]), "the Deferred returned by start() fired "
                        "more than once", fires=[(f[0], f[1]) for f in st["fires"]])
        elif not st["fires"] and ended:
            res.violate("start-deferred-never-fired", "the consumer was stopped but the Deferred returned by start() "
                        "never fired")
        elif st["fires"]:
            t, ok, val, fidx = st["fires"][0]
            if ok:
                # fires with the last processed offset
                if val is not None and not isinstance(val, int):
                    res.violate("start-deferred/wrong-value", "start() Deferred fired with %r" % (val,))
                stops_before = [s2 for s2 in tr.stops if s2["idx"] <= fidx and s2["idx"] > st["idx"]]
                shut = [sh for sh in tr.shutdowns if sh["idx"] <= fidx and sh["idx"] > st["idx"]]
                if not stops_before and not shut:
                    res.violate("start-deferred/succeeded-without-stop", "start() Deferred fired with success "
                                "although nobody stopped the consumer", value=val)
            else:
                # a failure: acceptable when an unrecoverable error came first; NOT acceptable when it is merely the
                # echo of stop()/shutdown() cancelling a request
                stops_before = [s2 for s2 in tr.stops if s2["idx"] < fidx and s2["idx"] > st["idx"] and
                                s2["raised"] is None]
                same_event = [s2 for s2 in stops_before if s2["ret_idx"] >= fidx]
                if same_event:
                    res.violate("start-deferred/failed-by-stop/%s" % val.type.__name__, "stop() made the start() "
                                "Deferred fail with %s instead of firing with the last processed offset" % (
                                    val.type.__name__,), situation=tr.info.get("stop_sit"))
        res.ob("start_deferred_once")
    # ---- shutdown
    for sh in tr.shutdowns:
        res.hit("shutdowns")
        if sh["raised"]:
            if sh["raised"] != "RestopError":
                res.violate("shutdown-raised/%s" % sh["raised"], "shutdown() raised %s" % sh["raised"])
            continue
        if len(sh["fires"]) != 1:
            # a stop() issued while the shutdown was pending legitimately pre-empts it?  The statement says the
            # Deferred reports once; never firing is only acceptable if the run ended first
            stopped_meanwhile = any(s2["idx"] > sh["idx"] for s2 in tr.stops)
            observed_long_enough = tr.w.clock.seconds() - sh["t"] > 12.0
            if len(sh["fires"]) > 1 or (not stopped_meanwhile and observed_long_enough):
                pend_proc = any(c_["done"] is None and c_["idx"] > sh["idx"] - 10 ** 9 for c_ in tr.calls)
                res.violate("shutdown-deferred-fired-%d-times%s" % (len(sh["fires"]), "/processor-never-finished"
                                                                    if pend_proc else ""),
                            "the Deferred returned by shutdown() must fire exactly once", fires=sh["fires"])
            continue
        t, ok, val, fidx = sh["fires"][0]
        # no processor call begins after the one in progress at shutdown()
        in_progress = [c_ for c_ in tr.calls if c_["idx"] < sh["idx"] and (c_["done"] is None or
                                                                          c_.get("done_idx", 10 ** 9) > sh["idx"])]
        began_after = [c_ for c_ in tr.calls if sh["idx"] < c_["idx"] < fidx and sh["origin"] != "inside"]
        if began_after:
            res.violate("shutdown/processor-call-began-after-shutdown", "%d processor call(s) began after "
                        "shutdown() was requested" % len(began_after), offsets=[m[0] for m in began_after[0]["msgs"]][:4])
        if ok and cfg["group"]:
            mech = "called-from-inside-the-processor" if sh["origin"] == "inside" else "+".join(
                tr.info.get("stop_sit") or ["?"])
            if sh.get("processed_then") is not None and sh.get("committed_then") != sh.get("processed_then"):
                res.violate("shutdown/committed-differs-from-processed/%s" % mech, "shutdown() succeeded with last "
                            "committed %r and last processed %r" % (sh.get("committed_then"),
                                                                    sh.get("processed_then")))
            stored = tr.cluster.offsets.get((cons.GROUP, cons.TOPIC, cons.PART))
            if sh.get("processed_then") is not None:
                # the cluster's stored offset at that moment: the latest acknowledged commit before the firing
                # (in the order the coordinator APPLIED them -- a reply delayed past a later commit's reply does not
                # make the earlier value the stored one)
                acked = [e_ for e_ in tr.cluster.history if "req" in e_ and e_["api"] == "OffsetCommit"
                         and e_.get("recv_idx", 10 ** 12) < fidx and e_.get("result") and e_["result"][0]["stored"]]
                acked.sort(key=lambda e_: e_["seq"])
                if acked and acked[-1]["result"][0]["offset"] != sh["processed_then"]:
                    res.violate("shutdown/stored-offset-differs/%s" % mech, "shutdown() succeeded but the coordinator's "
                                "stored offset is %r, last processed %r" % (acked[-1]["result"][0]["offset"],
                                                                            sh["processed_then"]))
                elif not acked and sc["stored"] != sh["processed_then"] and sh.get("committed_then") is not None \
                        and sh["committed_then"] != sc["stored"]:
                    res.violate("shutdown/nothing-committed", "shutdown() succeeded, claims committed %r, but the "
                                "coordinator never acknowledged a commit" % (sh["committed_then"],))
        res.ob("shutdown_semantics")
    # ---- 5 restartable
    for i, st in enumerate(starts[1:], 1):
        if st["raised"]:
            if st["raised"] != "RestartError":
                res.violate("restart-raised/%s" % st["raised"], "start() after stop raised %s" % st["raised"])
            continue
        res.hit("restarts_checked")
        truth = cons.truth(tr)
        lg = tr.cluster.log(cons.TOPIC, cons.PART)
        arg = st["arg"]
        if not isinstance(arg, int) or arg < 0:
            continue
        avail = [o for o in sorted(truth) if o >= arg and o >= lg.log_start]
        nxt = [s_["idx"] for s_ in starts if s_["idx"] > st["idx"]]
        end_idx = nxt[0] if nxt else len(log)
        delivered = [c_ for c_ in tr.calls if st["idx"] < c_["idx"] < end_idx]
        failed = st["fires"] and not st["fires"][0][1]
        stopped_again = any(st["idx"] < s2["idx"] < end_idx for s2 in tr.stops) or any(
            st["idx"] < sh["idx"] < end_idx for sh in tr.shutdowns)
        observed = tr.w.clock.seconds() - st["t"] > 6.0
        if avail and not delivered and not failed and not stopped_again and observed:
            # nothing delivered although messages are waiting: is the consumer even trying?
            w_after = [w_ for w_ in fetchish_writes(tr) if w_[0] > st["idx"]]
            sit = "+".join(tr.info.get("stop_sit") or ["?"])
            # records reached the client after the restart (a fetch answered with data a good second before the end
            # of observation)?  If every fetch since the restart met the fault plan (silent, dropped, late) the
            # consumer is being starved, not wedged: it is trying, and nothing says how long that may take.
            fed = [e_ for e_ in tr.cluster.history if e_.get("api") == "Fetch" and "req" in e_ and e_["t"] >= st["t"]
                   and e_.get("replied") == "sent" and (e_.get("reply_t") or 0) <= tr.w.clock.seconds() - 1.0
                   and any(r_.get("served_bytes") for r_ in (e_.get("result") or []) if isinstance(r_, dict))]
            if w_after and not fed:
                res.hit("restart_starved_by_the_fault_plan")
                continue
            res.violate("restart-wedged/%s" % ("no-request-ever-sent" if not w_after else "no-delivery"),
                        "after stop() and start(%d) the consumer delivered nothing although %d record(s) are "
                        "available; requests written after the restart: %d" % (arg, len(avail), len(w_after)),
                        situation_at_stop=sit)
        res.ob("restart_delivers")
    for e in tr.w.clock.errors:
        if e[2] == "AlreadyCalledError":
            res.violate("fired-twice/AlreadyCalledError", e[3][-500:])
        else:
            res.ev("diag_reactor_event_raised_" + e[2])
    for (where_, stack_, _did) in getattr(tr, "second_firings", ()):
        res.ev("diag_second_firing_attempted_" + where_)
    for u in tr.unhandled:
        res.ev("diag_unhandled_failure_" + u[0])
    # the stream oracle stays on
    c02.check_stream(res, tr)


def run(spec):
    res = Result()
    sc = cons.gen_scenario(spec["seed"], "stop")
    sc["actions"] = [a for a in sc["actions"] if a[1] in ("commit", "commit_if_running")]  # stops are injected below
    rng_c = random.Random((spec["seed"] * 48271) ^ 0xC0111)
    if sc["cfg"]["group"] and rng_c.random() < 0.35:
        # (own stream) the first commits are refused with a retriable error and the application keeps asking for
        # commits meanwhile: stop()/shutdown() then meets commits in back-off that were asked for again
        sc["faults"] = list(sc["faults"]) + [dict(api="OffsetCommit", nth=[0, 1, 2, 3], action=dict(
            kind="error", code=rng_c.choice((14, 15, 16))))]
        tt = 0.2
        while tt < 4.0:
            sc["actions"].append([round(tt, 3), "commit_if_running"])
            tt += rng_c.choice((0.11, 0.2, 0.35))
        sc["actions"].sort(key=lambda a: a[0])
        res.hit("commit_storms_during_refusals")
    base = run_once(sc)
    check(res, base, None)
    n = max(1, base.w.clock.steps - base.info["step0"])
    rng = random.Random(spec["seed"] ^ 0x5707)
    points = {}
    for name, ks in base.info["survey"].items():
        if name in ("not_running",):
            continue
        k = rng.choice(ks)
        points.setdefault(k, name)
    for extra_k in base.info["survey"].get("commit_backoff", [])[1:6:2]:
        points.setdefault(extra_k, "commit_backoff")
    for _ in range(2):
        points.setdefault(rng.randint(0, n), "random")
    sits = []
    for k, name in sorted(points.items()):
        how = rng.choice(("stop", "stop", "shutdown"))
        ra = rng.choice((0.0, 0.3, 2.0))
        tr = run_once(sc, stop_at=k, how=how, restart_after=ra)
        tr.info["restart_after"] = ra
        for s_ in (tr.info["stop_sit"] or []):
            res.hit("sit_" + s_)
        check(res, tr, how)
        for v in res.violations:
            v["witness"].setdefault("stop_point", dict(k=k, how=how, restart_after=tr.info.get("restart_after"),
                                                       situation=tr.info["stop_sit"]))
        sits.append((k, how, tr.info["stop_sit"]))
        res.sigs.add(sig(spec["seed"], k, how, tuple(tr.info["stop_sit"] or ()), tuple(tr.w.clock.trace[:2500])))
    # shutdown() pre-empted by stop(), and shutdown() whose commit the coordinator refuses, at the points where a
    # shutdown has something to wait for
    extra = [(k, name) for k, name in sorted(points.items()) if name in ("processor_pending", "commit_in_flight",
                                                                         "reply_parked", "fetch_outstanding")][:3]
    for k, name in extra:
        ts = rng.choice((0.0, 0.001, 0.05, 0.3))
        ra = rng.choice((0.5, 2.0))
        tr = run_once(sc, stop_at=k, how="shutdown", restart_after=max(ra, ts + 0.2), then_stop=ts)
        tr.info["restart_after"] = ra
        res.hit("shutdown_then_stop")
        check(res, tr, "shutdown_then_stop")
        for v in res.violations:
            v["witness"].setdefault("stop_point", dict(k=k, how="shutdown_then_stop", after=ts, situation=tr.info["stop_sit"]))
        sits.append((k, "shutdown_then_stop", tr.info["stop_sit"]))
        code = rng.choice((7, 12, 22, 2))
        tr = run_once(sc, stop_at=k, how="shutdown", restart_after=rng.choice((3.0, 5.0)), commit_fail=code)
        tr.info["restart_after"] = 3.0
        res.hit("shutdown_commit_refused")
        check(res, tr, "shutdown_commit_refused")
        for v in res.violations:
            v["witness"].setdefault("stop_point", dict(k=k, how="shutdown_commit_refused", code=code,
                                                       situation=tr.info["stop_sit"]))
        sits.append((k, "shutdown_commit_refused", tr.info["stop_sit"]))
    if sc["cfg"]["group"]:
        # shut down, start again at an EARLIER explicit offset, process some of it, shut down again: the second
        # shutdown has to commit what the second run processed (a position below the one committed before)
        for k, name in [(k, name) for k, name in sorted(points.items())][-2:]:
            tr = run_once(sc, stop_at=k, how="shutdown", restart_after=0.5, rewind_then_shutdown=True)
            tr.info["restart_after"] = 0.5
            if tr.info["second"]:
                res.hit("rewind_then_second_shutdown")
            check(res, tr, "rewind_then_shutdown")
            for v in res.violations:
                v["witness"].setdefault("stop_point", dict(k=k, how="rewind_then_shutdown", situation=tr.info["stop_sit"]))
            sits.append((k, "rewind_then_shutdown", tr.info["stop_sit"]))
    if any(p[0] in ("fail_sync", "fail_async") for p in sc["procs"]):
        tr = run_once(sc, stop_in_errback=True)
        check(res, tr, "stop_in_errback")
        for v in res.violations:
            v["witness"].setdefault("stop_point", dict(k=None, how="stop_in_errback", restart_after=1.0))
        if tr.info["stop_sit"] == ["from_start_errback"]:
            res.hit("sit_from_start_errback")
    res.sample = dict(config=sc["cfg"], start=sc["start"], processor=sc["procs"][:6], faults=sc["faults"],
                      events_without_stop=n, stop_points=sits)
    return res

"""C02 -- the consumer delivers every message once, in offset order, never concurrently."""
from ..core import Result, sig
from ..engines import cons

ID = "C02"
LEVEL = "exploration"
RULE = ("each evaluation is one consumer scenario: a partition log generated as data (compaction gaps, plain and "
        "gzip batches in both message formats, records larger than the fetch buffer, log start > 0, background "
        "appends, retention), a start position (numeric incl. out of range, earliest, latest, committed), a "
        "processor model (sync, async with delays), manual commits, stop/shutdown + restart, and faults on "
        "fetch/list-offsets/offset-fetch/commit/coordinator/metadata requests, leader moves. distinct = distinct "
        "(log shape, configuration, fault trace, event-order signature); non-trivial = at least one message "
        "delivered")
ASSUMPTIONS = ["every record carries a unique (key, value) derived from its offset, so a delivered message names the "
               "log record it claims to be", "the resolved start position is what the cluster answered to "
               "ListOffsets / OffsetFetch (+1); permitted discontinuities are a reset-policy firing (OffsetOutOfRange "
               "answer followed by a ListOffsets lookup) and an application restart",
               "snappy not installed (gzip and uncompressed batches only)"]
REACH_MIN = {"messages_delivered": {"quick": 4000, "thorough": 67200},
             "gzip_magic1_batches_served": {"quick": 60, "thorough": 1008},
             "partial_trailing_message": {"quick": 80, "thorough": 1344},
             "buffer_growth": {"quick": 20, "thorough": 336},
             "reset_policy_fired": {"quick": 3, "thorough": 50},
             "restarts": {"quick": 20, "thorough": 336},
             "leader_moves": {"quick": 20, "thorough": 336},
             "fetch_faults": {"quick": 60, "thorough": 1008}}


def cases(tier, seed):
    n = {"quick": 360, "thorough": 10000}[tier]
    out = [dict(seed=seed * 1000003 + 200000 + i, profile="stream") for i in range(n)]
    # a stopped (or shut down) consumer that is started again must deliver again: shutdown() whose final commit the
    # coordinator refuses, then a restart of the same object
    nr = {"quick": 40, "thorough": 1200}[tier]
    out += [dict(seed=seed * 1000003 + 250000 + i, profile="restart_after_refused_shutdown") for i in range(nr)]
    return out


def check_stream(res, tr, allow_failures=True):
    """The stream oracle; shared with C03/C13/C14 (they run it as a side condition)."""
    sc = tr.sc
    cfg = sc["cfg"]
    truth = cons.truth(tr)
    offsets_sorted = sorted(truth)
    log = tr.w.net.log
    state = "idle"  # idle | resolving | streaming | failed
    want = None  # what the consumer is resolving: earliest | latest | committed | reset
    candidate = None
    next_expected = None
    delivered_total = 0
    segments = 0
    first_fetch = False
    start_t = 0.0
    start_idx = 0
    pending_resets = []
    written_at = {}  # correlation id -> log index of the client's first write of that request
    for i_, ev_ in enumerate(log):
        if ev_[0] == "c2s" and len(ev_[3]) >= 12:
            import struct as _st
            written_at.setdefault(_st.unpack(">i", ev_[3][8:12])[0], i_)
    for idx, ev in enumerate(log):
        kind = ev[0]
        if kind == "start":
            arg = ev[2]
            start_t = ev[1]
            start_idx = idx
            segments += 1
            pending_resets = []
            candidate_written_at = -1
            if arg == -2:
                state, want, candidate = "resolving", "earliest", None
            elif arg == -1:
                state, want, candidate = "resolving", "latest", None
            elif arg == -101:
                state, want, candidate = "resolving", "committed", None
            else:
                state, next_expected = "streaming", arg
                first_fetch = True
            if segments > 1:
                res.hit("restarts")
        elif kind == "srv":
            api, e = ev[2], ev[3]
            if written_at.get(e["corr"], 10 ** 9) < start_idx:
                continue  # a request written before the latest (re)start: its reply is discarded by the client
            if api == "ListOffsets" and e["replied"] == "sent" and state == "resolving":
                r = e["result"][0]
                if r["error"] == 0 and r["offsets"]:
                    ts = r["timestamp"]
                    if (want in ("earliest", "reset_earliest", "committed_earliest") and ts == -2) or \
                            (want in ("latest", "reset_latest", "committed_latest") and ts == -1):
                        candidate = r["offsets"][0]
                        candidate_written_at = written_at.get(e["corr"], -1)
                    else:
                        res.violate("start/list-offsets-for-the-wrong-end", "the consumer asked ListOffsets for "
                                    "timestamp %d while it had to resolve '%s'" % (ts, want))
            elif api == "OffsetFetch" and e["replied"] == "sent" and state == "resolving" and want == "committed":
                r = e["result"][0]
                if r["error"] == 0:
                    if r["offset"] == -1:
                        want = "committed_latest" if cfg["reset"] == "latest" else "committed_earliest"
                        candidate = None
                    else:
                        candidate = r["offset"] + 1
                        candidate_written_at = written_at.get(e["corr"], -1)
            elif api == "Fetch":
                req = e["req"]["topics"][0]["partitions"][0]
                if state == "resolving" and candidate is not None and \
                        written_at.get(e["corr"], 10 ** 9) < candidate_written_at:
                    continue  # a fetch written before the lookup that resolved the position, answered (late) after it
                if state == "resolving" and candidate is not None:
                    if want.startswith("reset_") and next_expected is not None:
                        # messages fetched before the out-of-range answer are still in the pipeline: the jump to
                        # the new position shows up in the delivered stream only after they have been handed over
                        pending_resets.append(candidate)
                        state = "streaming"
                        if req["offset"] != candidate:
                            res.violate("fetch/first-fetch-not-at-the-resolved-start-position", "the first fetch "
                                        "after the offset reset asked for %d, ListOffsets answered %d" % (
                                            req["offset"], candidate))
                    else:
                        state, next_expected = "streaming", candidate
                        first_fetch = True
                    candidate = None
                if state == "streaming" and first_fetch and written_at.get(e["corr"], 10 ** 9) < start_idx:
                    pass  # a fetch written before the (re)start and answered only now
                elif state == "streaming" and first_fetch:
                    # (later fetches legitimately run ahead of delivery: the consumer prefetches while processing)
                    first_fetch = False
                    if req["offset"] != next_expected:
                        res.violate("fetch/first-fetch-not-at-the-resolved-start-position", "the first fetch after "
                                    "(re)start asked for offset %d, the resolved start position is %d" % (
                                        req["offset"], next_expected))
                    res.ob("first_fetch_at_resolved_position")
                if e["replied"] == "sent" and e["result"]:
                    r = e["result"][0]
                    if r["error"] == 1:
                        if cfg["reset"] is not None:
                            state = "resolving"
                            want = "reset_" + cfg["reset"]
                            candidate = None
                            res.hit("reset_policy_fired")
                        else:
                            state = "oor"
                    elif r["error"] == 0:
                        if r.get("truncated"):
                            res.hit("partial_trailing_message")
                        if req["max_bytes"] > cfg["buffer_size"]:
                            res.hit("buffer_growth")
                    else:
                        res.hit("fetch_faults")
                elif e["replied"] != "sent":
                    res.hit("fetch_faults")
        elif kind == "proc_call":
            offs = ev[3]
            call = tr.calls[ev[2]]
            if call["pending_at_call"]:
                res.violate("overlap/processor-invoked-while-previous-result-pending", "the processor was called "
                            "while the result of call(s) %r was still pending" % call["pending_at_call"], call=ev[2])
            res.ob("no_overlap")
            if state == "idle":
                # the processor ran while the consumer was stopped: C13's subject, not a property of the stream
                res.ev("delivery_while_stopped")
                continue
            resetting = state == "resolving" and want is not None and want.startswith("reset_")
            if (state != "streaming" and not resetting) or next_expected is None:
                res.violate("delivery/before-start-position-resolved", "messages were delivered although the start "
                            "position had not been resolved", state=state, offsets=offs[:5])
                continue
            expected = [o for o in offsets_sorted if o >= next_expected][:len(offs)]
            if offs != expected and pending_resets:
                # several resets may follow one another with nothing delivered in between (the position resolved by
                # the first is itself out of range by the time it is fetched): the stream continues at whichever of
                # the pending positions the delivery matches, and the ones before it are spent
                for ri, pos_ in enumerate(pending_resets):
                    alt = [o for o in offsets_sorted if o >= pos_][:len(offs)]
                    if offs == alt:
                        next_expected = pos_
                        del pending_resets[:ri + 1]
                        expected = alt
                        break
            if offs != expected:
                if offs and expected and offs[0] < next_expected:
                    what = "repeat-or-backwards"
                elif any(b <= a for a, b in zip(offs, offs[1:])):
                    what = "not-strictly-increasing"
                elif set(expected) - set(offs) and (not offs or min(set(expected) - set(offs)) < offs[-1]):
                    what = "omission"
                else:
                    what = "unknown-offset"
                res.violate("stream/%s" % what, "delivered offsets differ from the log from position %d: got %r, log "
                            "has %r" % (next_expected, offs[:8], expected[:8]), call=ev[2],
                            discovery=cfg["discovery"])
            for (o, k, v) in call["msgs"]:
                t_ = truth.get(o)
                if t_ is not None and (k, v) != t_:
                    res.violate("stream/content-differs-from-stored-record", "delivered key/value differ from the "
                                "record stored at that offset", offset=o, got=(k, v[:30] if v else v),
                                stored=(t_[0], t_[1][:30]))
            res.ob("stream_equals_log", len(offs))
            delivered_total += len(offs)
            if offs:
                next_expected = offs[-1] + 1
                pending_resets = [p_ for p_ in pending_resets if p_ > next_expected]
        elif kind == "start_fired":
            # a failed start Deferred reports the error; messages already fetched keep being delivered until the
            # application stops the consumer, so the stream carries on
            pass
        elif kind == "stop_returned":
            state = "idle"
    res.hit("messages_delivered", delivered_total)
    if pending_resets and next_expected is not None:
        next_expected = max(next_expected, pending_resets[-1])
    return dict(state=state, next_expected=next_expected, delivered=delivered_total)


def check(res, tr):
    sc = tr.sc
    cfg = sc["cfg"]
    if tr.capped and cons.report_spin(res, tr):
        return
    if tr.capped:
        res.inconclusive.append("scenario aborted: %s" % getattr(tr, "cap_reason", "?"))
        return
    for b in tr.cluster.bad_frames:
        res.violate("unparseable-frame", "a broker received a frame the strict parser rejects: %s" % b["error"])
    for e in tr.w.clock.errors:
        if e[2] == "AlreadyCalledError":
            res.violate("fired-twice/AlreadyCalledError", e[3][-400:])
        else:
            res.ev("diag_reactor_event_raised_" + e[2])
    end = check_stream(res, tr)
    res.hit("leader_moves", sum(1 for e in sc["events"] if e[1] == "move"))
    served = [e for e in tr.cluster.history if e.get("api") == "Fetch" and e.get("replied") == "sent"]
    if cfg["discovery"] and any(b["codec"] and b["magic"] == 1 for b in sc["log"]) and any(e["version"] >= 2 for e in served):
        res.hit("gzip_magic1_batches_served")
    # 3 bounded progress: the consumer is still running at the horizon, faults are over: nothing may be left
    c = tr.consumer
    healthy = bool(tr.starts) and not tr.starts[-1]["fires"] and tr.starts[-1]["raised"] is None
    if end["state"] == "streaming" and tr.end_state["running"] and healthy:
        truth = cons.truth(tr)
        lg = tr.cluster.log(cons.TOPIC, cons.PART)
        left = [o for o in sorted(truth) if o >= end["next_expected"] and o >= lg.log_start]
        stalled_proc = any(cl_["done"] is None for cl_ in tr.calls)
        if left and not stalled_proc:
            recent = [e for e in tr.cluster.history if "req" in e and e["t"] > tr.horizon - 35.0]
            mine = cons.consumer_delayed_calls(tr)
            if not recent and not mine:
                res.violate("progress/consumer-idle-with-messages-left", "the consumer is started, nothing is "
                            "scheduled or in flight, yet %d log record(s) from offset %d were never delivered" % (
                                len(left), left[0]), next_expected=end["next_expected"])
            else:
                # slow but active is not a verdict either way: recorded, reported in the evidence
                res.ev("progress_bound_not_reached_but_consumer_active")
        res.ob("bounded_progress")
    if end["delivered"]:
        res.sig = sig([(b["magic"], b["codec"], len(b["offsets"])) for b in sc["log"]][:30], sorted(cfg.items(), key=str),
                      sc["start"], [(f["api"], f["nth"], f["action"]["kind"]) for f in sc["faults"]],
                      tuple(tr.w.clock.trace[:3000]))
    if res.sample is None:
        res.sample = dict(config=cfg, start=sc["start"], stored=sc["stored"],
                          log=[(b["offsets"][0], b["offsets"][-1], b["magic"], b["codec"], max(b["sizes"] or [0]))
                               for b in sc["log"]][:12],
                          faults=sc["faults"], events=sc["events"], actions=sc["actions"],
                          calls=[(round(c_["t"] - tr.base, 4), [m[0] for m in c_["msgs"]][:8], c_["beh"], c_["ok"])
                                 for c_ in tr.calls][:10])


def run_restart(spec):
    """Uses C13's stop-point machinery; only the clauses about delivery after the restart belong to this property."""
    import random as _r
    from . import c13
    res = Result()
    sc = cons.gen_scenario(spec["seed"], "stop")
    sc["actions"] = [a for a in sc["actions"] if a[1] == "commit"]
    base = c13.run_once(sc)
    rng = _r.Random(spec["seed"] ^ 0x2E57)
    pts = [(rng.choice(ks), name) for name, ks in sorted(base.info["survey"].items())
           if name in ("processor_pending", "fetch_outstanding", "reply_parked", "commit_in_flight")]
    for k, name in pts[:2]:
        code = rng.choice((7, 12, 22, 2))
        tr = c13.run_once(sc, stop_at=k, how="shutdown", restart_after=rng.choice((3.0, 5.0)), commit_fail=code)
        tr.info["restart_after"] = 3.0
        full = Result()
        c13.check(full, tr, "shutdown_commit_refused")
        res.hit("restarts_after_refused_shutdown")
        for v in full.violations:
            if v["key"].startswith("restart-wedged") or v["key"].startswith("stream/") or v["key"].startswith("overlap/"):
                res.violate("restart/" + v["key"], v["msg"], situation=name, commit_error=code, **v["witness"])
        res.ob("restarted_consumer_delivers", 1)
        res.sigs.add(sig("restart", spec["seed"], k, code, name))
    res.n_sub += 1
    return res


def run(spec):
    if spec.get("profile") == "restart_after_refused_shutdown":
        return run_restart(spec)
    res = Result()
    sc = cons.gen_scenario(spec["seed"], spec.get("profile", "stream"))
    tr = cons.run_scenario(sc)
    check(res, tr)
    return res

"""C20 -- closing the client fails everything pending and releases every connection."""
import random

from twisted.python.failure import Failure

from ..core import Result, sig
from ..engines.world import World
from ..traps import Traps

ID = "C20"
LEVEL = "exploration"
RULE = ("each evaluation is one (scenario, close point): a generated client workload (bootstrap with dead / "
        "black-holed / slow hosts, metadata loads, fetch/produce/offset calls over 1..4 brokers, shared coordinator "
        "lookups, silent brokers keeping timers armed, stopped brokers in reconnect back-off, a full refresh that "
        "removes brokers) is first run without close() to count its events, then re-run with close() injected after "
        "a drawn event index (or from inside a completion callback). distinct = distinct (workload, client state "
        "class at close, event-order signature); non-trivial = something was pending or connected at close")
ASSUMPTIONS = ["one KafkaClient per world, so every connection and attempt in simnet belongs to it",
               "calling close() twice is outside the statement and is not generated"]
REACH_MIN = {"close_points": {"quick": 600, "thorough": 9000},
             "state_bootstrapping": {"quick": 40, "thorough": 600},
             "state_requests_in_flight": {"quick": 132, "thorough": 1980},
             "state_connecting_or_backoff": {"quick": 40, "thorough": 600},
             "state_nested_broker_close": {"quick": 10, "thorough": 150},
             "pending_ops_at_close": {"quick": 300, "thorough": 4500},
             "ops_started_after_close": {"quick": 600, "thorough": 9000}}


def cases(tier, seed):
    n = {"quick": 220, "thorough": 5500}[tier]
    return [dict(seed=seed * 1000003 + 2000000 + i) for i in range(n)]


def gen(seed):
    rng = random.Random(seed)
    nb = rng.choice((1, 2, 3, 4))
    brokers = list(range(1, nb + 1))
    topics = {"t%d" % i: {p: rng.choice(brokers) for p in range(rng.choice((1, 2, 4)))} for i in range(rng.choice((1, 2)))}
    boot = []
    for h in range(rng.choice((0, 1, 2))):
        boot.append(["dead%d.sim" % h, 9092, rng.choice(("refuse", "blackhole", "slow"))])
    ops = []
    t = 0.0
    for _ in range(rng.randint(2, 8)):
        t += rng.choice((0, 0, 0.01, 0.2, 1.0))
        kind = rng.choice(("metadata_all", "metadata_topic", "fetch", "fetch", "produce", "produce0", "offsets",
                           "coordinator", "coordinator", "offset_commit", "offset_fetch"))
        ops.append([round(t, 4), kind, rng.randint(0, 2)])
    faults = []
    for b in brokers:
        r = rng.random()
        if r < 0.3:
            faults.append([round(rng.uniform(0, t + 0.5), 4), "silent", b])
        elif r < 0.45:
            # (half of the refused connections are refused synchronously: the endpoint's Deferred has already failed
            # when it is returned)
            faults.append([round(rng.uniform(0, t + 0.5), 4), rng.choice(("stop", "stop_sync")), b])
        elif r < 0.55:
            faults.append([round(rng.uniform(0, t + 0.5), 4), "slow", b])
    refresh_removes = rng.random() < 0.25 and nb >= 2
    double_refresh = nb >= 3 and rng.random() < 0.35
    if double_refresh:
        # make sure a broker client (with a connection) exists for every broker before the refreshes
        # ... and only for the two that will be dropped, so that nothing else keeps close() waiting
        topics = {"tall": {0: brokers[-1], 1: brokers[-2]}}
        ops = [[0.0, "fetch", 0]] + [o for o in ops if o[1] in ("metadata_topic", "coordinator")][:2]
        faults = []
        refresh_removes = False
        t = max(o[0] for o in ops)
    # callbacks that react to a failure by cancelling an earlier operation ("if the offsets lookup fails, give up the
    # fetch"): they run inside close() when close() fails the later one first
    links = []
    if len(ops) >= 2 and rng.random() < 0.35:
        for _ in range(rng.choice((1, 2, 3))):
            j = rng.randrange(1, len(ops))
            links.append([j, rng.randrange(0, j)])
        if rng.random() < 0.5 and brokers:
            # ... with the requests still queued on a broker client that cannot connect
            faults = [f for f in faults if f[1] not in ("stop", "stop_sync")] + \
                [[0.0, rng.choice(("stop", "stop_sync")), rng.choice(brokers)]]
    return dict(seed=seed, brokers=brokers, topics=topics, boot=boot, ops=ops, faults=faults, links=links,
                refresh_removes=refresh_removes, double_refresh=double_refresh, cold=rng.random() < 0.5, latency=rng.choice((0.0, 0.002, 0.02)),
                timeout=rng.choice((0.5, 2.0)), close_from_callback=rng.random() < 0.2, horizon=t + 3.0)


def is_boot_attempt(a):
    return not hasattr(a.factory, "makeRequest")


def is_boot_conn(c):
    return type(c.client_proto).__name__ == "KafkaBootstrapProtocol"


def start_op(client, C, kind, sc, arg, after_close=False):
    tps = [(t, p) for t in sorted(sc["topics"]) for p in sorted(sc["topics"][t])]
    group = "g%d" % arg
    if kind == "metadata_all":
        return client.load_metadata_for_topics()
    if kind == "metadata_topic":
        return client.load_metadata_for_topics(sorted(sc["topics"])[0])
    if kind == "fetch":
        return client.send_fetch_request([C.FetchRequest(t, p, 0, 1024) for t, p in tps], max_wait_time=20,
                                         min_bytes=0)
    if kind == "produce":
        return client.send_produce_request([C.ProduceRequest(t, p, [C.Message(0, 0, None, b"v")]) for t, p in tps])
    if kind == "produce0":
        return client.send_produce_request([C.ProduceRequest(t, p, [C.Message(0, 0, None, b"v")]) for t, p in tps],
                                           acks=0)
    if kind == "offsets":
        return client.send_offset_request([C.OffsetRequest(t, p, -1, 1) for t, p in tps])
    if kind == "coordinator":
        return client.load_coordinator_for_group(group)
    if kind == "offset_commit":
        return client.send_offset_commit_request(group, [C.OffsetCommitRequest(tps[0][0], tps[0][1], 3, -1, None)])
    if kind == "offset_fetch":
        return client.send_offset_fetch_request(group, [C.OffsetFetchRequest(tps[0][0], tps[0][1])])
    raise ValueError(kind)


def run_once(sc, close_step=None):
    """close_step None: baseline (close at the very end).  Returns a record."""
    from afkak import common as C
    random.seed(sc["seed"])
    w = World(sc["seed"], brokers=sc["brokers"], latency=sc["latency"] or (0.02 if sc.get("double_refresh") else 0.0),
              chunk="coalesce" if sc.get("double_refresh") else "whole")
    cl = w.cluster
    for t, parts in sc["topics"].items():
        cl.add_topic(t, {int(p): l for p, l in parts.items()})
    hosts = w.bootstrap_hosts()
    slow = set()
    black = set()
    for h, p, mode in sc["boot"]:
        hosts.append("%s:%d" % (h, p))
        if mode == "blackhole":
            black.add((h, p))
        elif mode == "slow":
            slow.add((h, p))

    def policy(host, port, n):
        if (host, port) in black:
            return ("blackhole", None)
        if (host, port) in slow:
            return ("refuse", 0.7)
        return None
    w.net.connect_policy = policy
    rec = dict(ops=[], close=None, w=w, sc=sc)
    with Traps() as traps:
        client = w.client(hosts=hosts, timeout=int(sc["timeout"] * 1000))
        rec["client"] = client
        active = rec["unaware_active"] = set()
        orig_unaware = client._send_broker_unaware_request

        unaware = rec["unaware"] = []  # one record per broker-agnostic request: brokers known at its start, tried

        def unaware_spy(requestId, request):
            ur = dict(rid=requestId, n_known=len(client._brokers), tried=set(), done=False)
            unaware.append(ur)
            d = orig_unaware(requestId, request)
            active.add(d)

            def done(r):
                active.discard(d)
                ur["done"] = True
                return r
            d.addBoth(done)
            return d
        client._send_broker_unaware_request = unaware_spy
        orig_mrtb = client._make_request_to_broker

        def mrtb_spy(broker, requestId, request, **kw):
            for ur in unaware:
                if ur["rid"] == requestId and not ur["done"]:
                    ur["tried"].add(getattr(broker, "node_id", id(broker)))
            return orig_mrtb(broker, requestId, request, **kw)
        client._make_request_to_broker = mrtb_spy
        merging = rec["merging"] = [0]
        orig_merge = client._merge_topic_metadata

        late_merges = rec["late_merges"] = []

        def merge_spy(*a, **kw):
            merging[0] += 1
            m = None
            if rec["close"] is not None:
                # a response merged into the client after close(): which brokers did it name, did the merge go through
                m = dict(t=w.clock.seconds(), n_brokers=len(list(a[0])) if a else -1, ok=False)
                late_merges.append(m)
            try:
                r = orig_merge(*a, **kw)
                if m is not None:
                    m["ok"] = True
                return r
            finally:
                merging[0] -= 1
        client._merge_topic_metadata = merge_spy
        if not sc["cold"]:
            box = []
            client.load_metadata_for_topics().addBoth(box.append)
            w.run(until=8.0)
        base = w.clock.seconds()
        step0 = w.clock.steps

        def do_close(origin):
            if rec["close"] is not None:
                return
            c = rec["close"] = dict(t=w.clock.seconds(), step=w.clock.steps, origin=origin, log_idx=len(w.net.log),
                                    att_idx=len(w.net.attempts), fired=[], raised=None,
                                    open_conns=len(w.net.open_conns), pending_attempts=len(w.net.pending_attempts),
                                    pending_ops=[o for o in rec["ops"] if o["d"] is not None and not o["fires"]],
                                    n_clients=len(client.clients or {}),
                                    unaware_active=len(rec["unaware_active"]),
                                    in_merge=rec["merging"][0] > 0,
                                    connecting=sum(1 for x in (client.clients or {}).values()
                                                   if x.connector is not None and x.proto is None),
                                    nested=client.close_dlist is not None,
                                    boot_in_progress=any(is_boot_attempt(a) for a in w.net.pending_attempts) or
                                    any(is_boot_conn(cn) for cn in w.net.open_conns))
            # broker-agnostic requests that still have known brokers they have not tried
            c["untried"] = [ur for ur in rec["unaware"] if not ur["done"] and ur["n_known"] > len(ur["tried"]) > 0]
            c["untried_not_failed"] = []
            try:
                d = client.close()
            except Exception as e:
                c["raised"] = repr(e)
                return
            # "at once" = by the end of the reactor event in which close() was called (close() may itself be running
            # inside a callback whose sibling callbacks have not been delivered yet)
            c["returned_pending"] = [o for o in c["pending_ops"] if not o["fires"]]

            def at_quiesce():
                c["returned_pending"] = [o for o in c["pending_ops"] if not o["fires"]]
                c["untried_not_failed"] = [(ur["rid"], ur["n_known"], len(ur["tried"])) for ur in c["untried"]
                                           if not ur["done"]]
                w.clock.hooks.remove(at_quiesce)
            w.clock.hooks.append(at_quiesce)

            def fired(r):
                c["fired"].append(dict(t=w.clock.seconds(), open_conns=len(w.net.open_conns),
                                       pending_attempts=len(w.net.pending_attempts),
                                       only_bootstrap=all(is_boot_conn(x) for x in w.net.open_conns) and
                                       all(is_boot_attempt(x) for x in w.net.pending_attempts),
                                       result=repr(r)[:80] if isinstance(r, Failure) else None))
                return None
            d.addBoth(fired)
            c["meta_after"] = (dict(client.topic_partitions), dict(client.topics_to_brokers), dict(client.topic_errors),
                               dict(client._group_to_coordinator))

        def launch(kind, arg, after_close=False):
            o = dict(kind=kind, t=w.clock.seconds(), fires=[], d=None, after_close=after_close, raised=None,
                     unaware_active_at_start=len(rec["unaware_active"]))
            rec["ops"].append(o)
            try:
                d = start_op(client, C, kind, sc, arg)
            except Exception as e:
                o["raised"] = type(e).__name__
                return
            o["d"] = d

            def fired(r, o=o):
                o["fires"].append((w.clock.seconds(), not isinstance(r, Failure),
                                   type(r.value).__name__ if isinstance(r, Failure) else repr(r)[:40]))
                o["fire_step"] = w.clock.steps
                if isinstance(r, Failure):
                    for (j_, i_) in sc.get("links", ()):
                        if j_ < len(rec["ops"]) and rec["ops"][j_] is o and i_ < len(rec["ops"]):
                            tgt = rec["ops"][i_]
                            if tgt["d"] is not None and not tgt["fires"]:
                                tgt["cancelled_by_callback"] = w.clock.seconds()
                                tgt["d"].cancel()
                if sc["close_from_callback"] and close_step is not None and o.get("closer"):
                    do_close("callback")
                return None
            d.addBoth(fired)
        first = True
        sync_refused = set()
        prev_policy = w.net.connect_policy

        def policy(host, port, n):
            if (host, port) in sync_refused:
                return ("refuse_sync", None)
            return prev_policy(host, port, n) if prev_policy is not None else None
        w.net.connect_policy = policy
        for (t, kind, arg) in sc["ops"]:
            def go(kind=kind, arg=arg):
                launch(kind, arg)
            w.clock.labelled(base - w.clock.seconds() + t, "call." + kind, go)
        for (t, what, b) in sc["faults"]:
            if what == "silent":
                w.clock.labelled(base - w.clock.seconds() + t, "fault.silent", cl.faults.add,
                                 dict(broker=b, action=dict(kind="silent", apply=False)))
            elif what == "stop":
                w.clock.labelled(base - w.clock.seconds() + t, "fault.stop", cl.stop_broker, b)
            elif what == "stop_sync":
                def stop_sync(b=b):
                    cl.stop_broker(b)
                    sync_refused.add((cl.brokers[b].host, cl.brokers[b].port))
                w.clock.labelled(base - w.clock.seconds() + t, "fault.stop", stop_sync)
            else:
                w.clock.labelled(base - w.clock.seconds() + t, "fault.slow", cl.faults.add,
                                 dict(broker=b, action=dict(kind="ok", delay=0.4)))
        if sc["refresh_removes"]:
            def remove_and_refresh():
                victim = sc["brokers"][-1]
                cl.stop_broker(victim, sever=False)
                for key, node in list(cl.leaders.items()):
                    if node == victim:
                        cl.leaders[key] = sc["brokers"][0]
                launch("metadata_all", 0)
            w.clock.labelled(base - w.clock.seconds() + sc["horizon"] * 0.5, "fault.remove_broker", remove_and_refresh)
        if sc.get("double_refresh"):
            # two full refreshes in flight back to back, each dropping another broker: overlapping rounds of
            # broker-client closing (nested close lists)
            def double():
                x, y = sc["brokers"][-1], sc["brokers"][-2]
                keep = sc["brokers"][0]
                for key in list(cl.leaders):
                    cl.leaders[key] = keep
                count = [0]

                def scripted(ev):
                    # first refresh after the trigger: x has left the cluster; second one: y too.  Both requests are
                    # in flight together, so the second round of broker-client closing can start while the first
                    # is still waiting for x's connection to go.
                    if ev["req"]["topics"]:
                        return None
                    count[0] += 1
                    brokers, topics = cl.metadata_view(())
                    gone = (x,) if count[0] == 1 else (x, y)
                    return [b for b in brokers if b[0] not in gone], topics
                cl.metadata_override = scripted
                launch("metadata_all", 0)
                launch("metadata_all", 0)
            w.clock.labelled(base - w.clock.seconds() + sc["horizon"] * 0.4, "fault.double_refresh", double)
        if close_step is not None and not sc["close_from_callback"]:
            def hook():
                if rec["close"] is None and w.clock.steps - step0 >= close_step:
                    do_close("event-%d" % close_step)
            w.clock.hooks.append(hook)
            if close_step == 0:
                do_close("event-0")
        elif close_step is not None:
            # close from inside the completion callback of the k-th operation to complete
            def hook():
                if rec["close"] is None and w.clock.steps - step0 >= close_step:
                    pend = [o for o in rec["ops"] if o["d"] is not None and not o["fires"]]
                    if pend:
                        pend[0]["closer"] = True
                    else:
                        do_close("event-%d" % close_step)
            w.clock.hooks.append(hook)
        interesting = rec["interesting"] = dict(nested=[], connecting=[], bootstrapping=[], in_flight=[])
        if close_step is None:
            def survey():
                k = w.clock.steps - step0
                if client.clients is None:
                    return
                if client.close_dlist is not None:
                    interesting["nested"].append(k)
                if any(x.connector is not None and x.proto is None for x in client.clients.values()):
                    interesting["connecting"].append(k)
                if any(is_boot_attempt(a) for a in w.net.pending_attempts) or any(is_boot_conn(cn) for cn in
                                                                                  w.net.open_conns):
                    interesting["bootstrapping"].append(k)
                if any(o["d"] is not None and not o["fires"] for o in rec["ops"]):
                    interesting["in_flight"].append(k)
            w.clock.hooks.append(survey)
        w.run(until=base + sc["horizon"] + 2.0, max_steps=100000)
        rec["steps"] = w.clock.steps - step0
        if rec["close"] is None:
            do_close("end")
        # operations started after close
        for kind in ("metadata_topic", "fetch", "produce", "coordinator", "offset_commit"):
            launch(kind, 0, after_close=True)
        w.run(until=w.clock.seconds() + 120.0, max_steps=200000)
        rec["end_meta"] = (dict(client.topic_partitions), dict(client.topics_to_brokers), dict(client.topic_errors),
                           dict(client._group_to_coordinator))
        rec["leftover_calls"] = [str(getattr(dc.func, "sim_label", getattr(dc.func, "__qualname__", dc.func)))
                                 for dc in w.clock.getDelayedCalls()]
        traps.flush()
    rec["unhandled"] = traps.unhandled
    rec["second_firings"] = traps.second_firings
    return rec


def classify_state(c):
    if c["boot_in_progress"]:
        return "bootstrapping"
    if c["nested"]:
        return "nested_broker_close"
    if c["connecting"]:
        return "connecting_or_backoff"
    if c["pending_ops"]:
        return "requests_in_flight"
    if c["open_conns"]:
        return "idle_connected"
    return "idle"


KNOWN_MECH = "bootstrap-path-ignores-close"


def late_suffix(rec, op=None, which=()):
    """The listed finding's history: a bootstrap reply that arrives after close() is handled as if nothing had
    happened, and what stops it from being merged is an accident (a reply that names brokers trips over the broker
    table close() removed).  A late reply that names brokers and is merged all the same, or a coordinator lookup that
    succeeds after close(), or a group map that is left filled, is a different history."""
    if any(m["ok"] and m["n_brokers"] > 0 for m in rec.get("late_merges", ())):
        return "/late-reply-naming-brokers-was-merged"
    if op is not None and op["kind"] in ("coordinator", "offset_commit", "offset_fetch"):
        return "/late-coordinator-reply-accepted"
    return ""


def check(res, rec):
    sc = rec["sc"]
    w = rec["w"]
    c = rec["close"]
    state = classify_state(c)
    res.hit("close_points")
    res.hit("state_" + state)
    res.n_sub += 1
    # A broker-agnostic request (metadata / coordinator lookup) in progress when close() is called carries on into
    # its bootstrap phase, which never looks at the closing flag: one mechanism behind several symptoms.  A symptom is
    # attributed to it only when such a request really was in progress AND the evidence is bootstrap traffic.
    boot = c["unaware_active"] > 0
    if boot:
        res.hit("state_unaware_request_in_progress")
    # second mechanism: close() re-entered from a callback that fires while a metadata response is being merged (a
    # broker dropped by a full refresh fails its pending requests synchronously); the merge then carries on
    REENTRANT = "close-reentered-during-metadata-merge"
    if c["in_merge"]:
        res.hit("state_close_inside_metadata_merge")
    if c["raised"]:
        res.violate("close-raised/%s" % state, "close() raised %s" % c["raised"])
        return state
    # 1 pending ops failed by the time close() returned
    res.hit("pending_ops_at_close", len(c["pending_ops"]))
    for o in c["pending_ops"]:
        if o in c["returned_pending"]:
            res.violate("pending-not-failed-at-close/%s" % (KNOWN_MECH if boot else state + "/" + o["kind"]),
                        "an operation pending at close() had not failed when close() returned", kind=o["kind"],
                        eventually=o["fires"], state=state)
        elif o["fires"][0][1]:
            # a result that was already being delivered in the very reactor event in which close() was called
            # (close() re-entered from a sibling callback) was not "in progress" any more
            if o.get("fire_step", 0) > c["step"] and o["kind"] not in ("produce0",):
                res.violate("pending-succeeded-at-close/%s" % (
                    REENTRANT if c["in_merge"] else KNOWN_MECH + late_suffix(rec, o) if boot
                    else state + "/" + o["kind"]),
                            "an operation pending at close() completed successfully after close()", kind=o["kind"],
                            fire=o["fires"][0])
        res.ob("pending_failed_at_once")
    if c.get("untried"):
        res.hit("unaware_requests_with_untried_brokers_at_close", len(c["untried"]))
        for (rid, n_known, n_tried) in c.get("untried_not_failed", ()):
            # (the listed finding is about a request that has run out of known brokers; one that has not is stopped by
            # the closing flag when it asks for the next broker client)
            res.violate("pending-not-failed-at-close/broker-agnostic-request-with-untried-brokers-carried-on",
                        "a broker-agnostic request in progress at close() had tried %d of the %d brokers known when "
                        "it started and was not failed by the end of that reactor event" % (n_tried, n_known),
                        request=rid)
        res.ob("unaware_with_untried_brokers_failed_at_once")
    for o in rec["ops"]:
        if len(o["fires"]) > 1:
            res.violate("operation-fired-twice/%s" % o["kind"], "operation Deferred fired twice", fires=o["fires"])
        if o["after_close"]:
            res.hit("ops_started_after_close")
            if o["raised"] is None and (not o["fires"] or o["fires"][0][1]):
                stuck = o["unaware_active_at_start"] > 0
                res.violate("new-operation-after-close/%s/%s" % (
                    "succeeded" if o["fires"] else "never-completed", KNOWN_MECH if stuck else o["kind"]),
                    "an operation started after close() did not fail", kind=o["kind"], fires=o["fires"])
            res.ob("new_operation_fails")
    # 2 nothing dialled / written after the close() call
    late_att = w.net.attempts[c["att_idx"]:]
    if late_att:
        mech = KNOWN_MECH if boot and all(is_boot_attempt(a) for a in late_att) else state + "/broker-client-dialled"
        res.violate("connect-after-close/%s" % mech, "%d connection attempt(s) were made after close() was called"
                    % len(late_att), first=late_att[0].as_tuple(), close_t=c["t"], state=state)
    res.ob("no_connect_after_close")
    writes = [ev for ev in w.net.log[c["log_idx"]:] if ev[0] == "c2s"]
    if writes:
        conns = {cn.id: cn for cn in w.net.conns}
        mech = KNOWN_MECH if boot and all(is_boot_conn(conns[ev[2]]) for ev in writes) else state + "/broker-connection"
        res.violate("write-after-close/%s" % mech, "%d write(s) reached a connection after close() was called"
                    % len(writes), first=(writes[0][1], writes[0][2], writes[0][3][:24]), origin=c["origin"])
    res.ob("no_write_after_close")
    # 3 close Deferred
    if len(c["fired"]) != 1:
        res.violate("close-deferred-fired-%d-times/%s" % (len(c["fired"]), state), "the Deferred returned by "
                    "close() must fire exactly once", fired=c["fired"])
    else:
        f = c["fired"][0]
        if f["open_conns"] or f["pending_attempts"]:
            mech = KNOWN_MECH if f["only_bootstrap"] else REENTRANT if c["in_merge"] else \
                state + "/broker-connection-open"
            res.violate("close-deferred-fired-early/%s" % mech, "close()'s Deferred fired while %d connection(s) "
                        "were still open and %d attempt(s) pending" % (f["open_conns"], f["pending_attempts"]))
        if f["result"]:
            res.violate("close-deferred-failed/%s" % state, "close()'s Deferred failed: %s" % f["result"])
        res.ob("close_fires_once_after_last_connection")
    if w.net.open_conns or w.net.pending_attempts:
        only_boot = all(is_boot_conn(x) for x in w.net.open_conns) and \
            all(is_boot_attempt(x) for x in w.net.pending_attempts)
        res.violate("connection-left-open/%s" % (KNOWN_MECH if boot and only_boot else state),
                    "connections or attempts are still open long after close()",
                    open=len(w.net.open_conns), pending=len(w.net.pending_attempts))
    res.ob("all_connections_closed")
    # 4 metadata cleared, nothing scheduled
    for name, snap in (("right-after-close", c.get("meta_after")), ("at-the-end", rec["end_meta"])):
        if snap and any(snap):
            which = [n for n, d in zip(("topic_partitions", "topics_to_brokers", "topic_errors", "group map"), snap)
                     if d]
            mech = (REENTRANT if c["in_merge"] else KNOWN_MECH + late_suffix(rec, None, which)
                    if (boot and name == "at-the-end") else "+".join(which))
            res.violate("metadata-not-cleared/%s/%s" % (name, mech), "cached metadata is not empty %s" % name,
                        which=which)
        res.ob("metadata_cleared")
    left = [x for x in rec["leftover_calls"] if not x.startswith(("srv.", "net.", "fault.", "call."))]
    if left:
        res.violate("delayed-call-left/%s" % (KNOWN_MECH if boot else state), "delayed calls remain on the reactor "
                    "after close()", calls=left[:5])
    res.ob("no_delayed_call_left")
    for e in w.clock.errors:
        if e[2] == "AlreadyCalledError":
            res.violate("fired-twice/AlreadyCalledError", e[3][-400:])
        else:
            res.ev("diag_reactor_event_raised_" + e[2])
    for (where_, stack_, _did) in rec.get("second_firings", ()):
        res.ev("diag_second_firing_attempted_" + where_)
    for u in rec["unhandled"]:
        res.ev("diag_unhandled_failure_" + u[0])
    if state not in ("idle",):
        res.sigs.add(sig(sc["seed"], c["origin"], state, tuple(w.clock.trace[:2000])))
    return state


def run(spec):
    res = Result()
    sc = gen(spec["seed"])
    base = run_once(sc, None)
    n = max(1, base["steps"])
    check(res, base)
    rng = random.Random(spec["seed"] ^ 0xC105E)
    points = set([0, rng.randint(0, n), rng.randint(0, n)])
    # stratify: one close point inside each client situation the baseline run passed through
    for name in ("nested", "connecting", "bootstrapping", "in_flight"):
        ks = base["interesting"][name]
        if ks:
            points.add(rng.choice(ks))
            if name == "nested":
                # rounds of broker-client closing may overlap: also close between and right after their completions
                points.update(k for k in (ks[0], ks[-1], ks[-1] + 1) if k <= n)
    points = sorted(points)
    states = []
    for k in points:
        rec = run_once(sc, k)
        states.append(check(res, rec))
    res.sample = dict(workload=dict(brokers=sc["brokers"], bootstrap_extra=sc["boot"], ops=sc["ops"],
                                    faults=sc["faults"], cold_start=sc["cold"], refresh_removes=sc["refresh_removes"]),
                      events_without_close=n, close_points=points, client_state_at_close=states)
    return res

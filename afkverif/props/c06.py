"""C06 -- each request completes exactly once, with the response bearing its own id."""
import struct

from ..core import Result, sig
from ..engines import bc

ID = "C06"
LEVEL = "exploration"
RULE = ("each evaluation is one generated scenario (1..8 concurrent requests with unique ids, cancels, disconnect, "
        "close, a server plan answering now/late/never/twice/with other ids/with unknown ids, connect outcomes, "
        "cuts, chunking mode, latencies) run twice against the real _KafkaBrokerClient (with and without the "
        "unsolicited frames), or one KafkaBootstrapProtocol scenario; distinct = distinct (scenario shape, executed "
        "event-order signature); non-trivial = at least one request reached the wire")
ASSUMPTIONS = ["simnet's transport follows Twisted TCP semantics: no dataReceived after loseConnection(), "
               "connectionLost on a later reactor event", "KafkaBootstrapProtocol is by design allowed to drop the "
               "connection on an unknown correlation id; the non-interference clause applies to the broker client"]
REACH_MIN = {"requests_completed_with_response": {"quick": 600, "thorough": 8100},
             "unsolicited_frames": {"quick": 150, "thorough": 2025},
             "cancelled_requests": {"quick": 55, "thorough": 742},
             "chunked_deliveries": {"quick": 2000, "thorough": 27000},
             "oversize_prefix": {"quick": 10, "thorough": 135},
             "reentrant_actions": {"quick": 100, "thorough": 1350},
             "bootstrap_scenarios": {"quick": 88, "thorough": 1188},
             "pattern_lost_with_cancelled": {"quick": 15, "thorough": 400},
             "pattern_close_cancels_sibling": {"quick": 15, "thorough": 400},
             "pattern_disconnect_window": {"quick": 15, "thorough": 400},
             "pattern_flush_on_connect": {"quick": 15, "thorough": 400},
             "pattern_odd_ids": {"quick": 15, "thorough": 400},
             "pattern_late_data": {"quick": 15, "thorough": 400}}


def cases(tier, seed):
    n = {"quick": 640, "thorough": 14000}[tier]
    out = [dict(kind="bc", seed=seed * 1000003 + i) for i in range(n)]
    nb = {"quick": 160, "thorough": 4000}[tier]
    out += [dict(kind="bootstrap", seed=seed * 1000033 + i) for i in range(nb)]
    npat = {"quick": 240, "thorough": 6000}[tier]
    out += [dict(kind="pattern", seed=seed * 1000037 + i) for i in range(npat)]
    return out


def check_trace(res, tr, tr2):
    sc = tr.sc
    if tr.capped:
        res.inconclusive.append("step cap exceeded")
        return
    frames_by_conn = {c.id: bc.delivered_frames(c) for c in tr.net.conns}
    written_by_conn = {c.id: bc.client_frames(c) for c in tr.net.conns}
    sent_bodies = set(b for (_t, _c, b, _k) in tr.server.sent)
    any_wire = any(written_by_conn.values())
    # sanitizer stand-ins: a second firing shows up as AlreadyCalledError somewhere; anything else that escapes
    # is recorded as a diagnostic (it is a defect, but not one this property's statement speaks about)
    for e in tr.clock_errors:
        if e[2] == "AlreadyCalledError":
            res.violate("fired-twice/AlreadyCalledError-in-reactor-event", "a Deferred was fired a second time: %s"
                        % e[3][-400:], label=e[1])
        else:
            res.ev("diag_reactor_event_raised_" + e[2])
    for u in tr.unhandled:
        if u[0] == "AlreadyCalledError":
            res.violate("fired-twice/AlreadyCalledError-unhandled", "a Deferred was fired a second time: %s" % u[1],
                        tb=u[2])
        else:
            res.ev("diag_unhandled_failure_" + u[0])
    for (where, stack, did) in getattr(tr, "second_firings", ()):
        # diagnostic only: the Deferred's own guard turns a second firing into an AlreadyCalledError and the caller
        # sees one outcome; code that fires defensively and swallows the error is not wrong by this property.  What a
        # second firing breaks downstream (an aborted flush, a request not written) is judged where it is observable.
        res.ev("diag_second_firing_attempted_" + where)
    if tr.close_raised:
        res.violate("close-raised", "close() raised %s" % tr.close_raised)
    for rid in getattr(tr, "pending_after_heal", ()):
        rec = tr.reqs[rid]
        res.violate("never-completed/server-healthy-for-60s", "the request was neither cancelled nor answered with a "
                    "failure, the server answered everything and accepted every connection for 60 s, yet the request "
                    "was still pending (written %d time(s)) until close() failed it" % len(rec.get("writes", ())),
                    rid=rid, cancelled=rec["cancelled"])
    for rid, rec in tr.reqs.items():
        if rec["d"] is None:
            if rec.get("raised"):
                res.violate("makeRequest-raised", "makeRequest raised %s" % rec["raised"], rid=rid)
            continue
        fires = rec["fires"]
        # 1 exactly once
        if len(fires) > 1:
            res.violate("fired-twice", "request Deferred fired %d times" % len(fires), rid=rid, fires=fires)
            continue
        if not fires:
            res.violate("never-fired", "request Deferred did not fire although the scenario ended with %s" % (
                "close()" if tr.close_called is not None else "every request answered"), rid=rid,
                cancelled=rec["cancelled"], end=sc["end"], close_called=tr.close_called)
            continue
        res.ob("exactly_once")
        t, ok, val = fires[0]
        if ok:
            if not rec["expect"]:
                # 2b no-response request: None, and its bytes were written
                if val is not None:
                    res.violate("no-reply-request/non-None-value", "expectResponse=False request fired with a value",
                                rid=rid, value=val)
                wrote = [wt for cid, fl in written_by_conn.items() for (wt, wid, f) in fl if wid == rid and wt <= t]
                if not wrote:
                    res.violate("no-reply-request/fired-before-written", "fired although never written", rid=rid)
                res.ob("no_reply_written")
                res.hit("no_reply_requests")
                continue
            if not isinstance(val, bytes) or len(val) < 4:
                res.violate("success-value/not-a-frame", "success value is not response bytes", rid=rid, value=val)
                continue
            got_id = struct.unpack(">i", val[:4])[0]
            if got_id != rid:
                res.violate("success-value/foreign-correlation-id", "request completed with a response bearing "
                            "another request's id", rid=rid, got_id=got_id, value=val)
                continue
            if val not in sent_bodies:
                res.violate("success-value/not-sent-by-server", "value is not byte-identical to any frame the server "
                            "sent", rid=rid, value=val)
                continue
            # first frame with this id delivered on a connection where the request had been written before
            cand = []
            for cid, fl in frames_by_conn.items():
                w = [wt for (wt, wid, f) in written_by_conn[cid] if wid == rid]
                if not w:
                    continue
                for (ft, f) in fl:
                    if len(f) >= 4 and struct.unpack(">i", f[:4])[0] == rid and ft >= w[0]:
                        cand.append((ft, cid, f))
            cand.sort(key=lambda x: x[0])
            if not cand:
                res.violate("success-value/never-delivered-on-own-connection", "no frame with this id was delivered "
                            "on a connection the request was written to", rid=rid)
            elif cand[0][2] != val or abs(cand[0][0] - t) > 1e-9:
                res.violate("success-value/not-the-first-matching-frame", "value/time differ from the first frame "
                            "bearing the id", rid=rid, first=cand[0], fired=(t, val))
            res.ob("own_response")
            res.hit("requests_completed_with_response")
        else:
            # 3 failure kinds
            if val == "CancelledError":
                if rec["cancelled"] is None:
                    res.violate("failure/cancelled-error-without-cancel", "failed with CancelledError but the caller "
                                "never cancelled", rid=rid)
                elif abs(rec["cancelled"] - t) > 1e-9:
                    res.violate("failure/cancel-not-immediate", "cancel() did not fail the Deferred at once", rid=rid)
                res.hit("cancelled_requests")
            elif val == "ClientError":
                if tr.close_called is None or t < tr.close_called - 1e-9:
                    res.violate("failure/client-error-without-close", "failed with ClientError before close()",
                                rid=rid, t=t, close=tr.close_called)
                res.hit("failed_by_close")
            elif rid in sc.get("unwritable", ()):
                res.hit("unwritable_requests_failed")  # whatever the transport raised for it
            else:
                res.violate("failure/unexpected-%s" % val, "request failed with something other than cancellation "
                            "or owner-closed", rid=rid)
            res.ob("failure_kind")
    # 4 non-interference (differential)
    if tr2 is not None and not tr2.capped:
        a, b = bc.outcome_table(tr), bc.outcome_table(tr2)
        n_unsol = sum(1 for (_t, _c, _b, k) in tr.server.sent if k in ("unknown_id", "cancelled_id"))
        if n_unsol:
            res.hit("unsolicited_frames", n_unsol)
            if a != b:
                diff = [(k, a.get(k), b.get(k)) for k in set(a) | set(b) if a.get(k) != b.get(k)]
                res.violate("non-interference/outcome-changed-by-unsolicited-frame", "removing the frames with "
                            "unknown / cancelled ids from the server's plan changes another request's outcome",
                            diff=diff[:4])
            res.ob("non_interference")
    # 5 framing: oversize prefix closes the connection at that event
    for c in tr.net.conns:
        at = getattr(c, "oversize_at", None)
        if at is None:
            continue
        # find delivery of the 4 prefix bytes
        total = 0
        pre = sum(len(b) + 4 for (st, cid, b, k) in tr.server.sent if cid == c.id and k != "oversize" and st <= at)
        res.hit("oversize_prefix")
        delivered_after = 0
        closed_t = None
        for ev in tr.net.log:
            if ev[0] == "client_close" and ev[2] == c.id:
                closed_t = ev[1]
        got = sum(len(d) for _t, d in c.s2c)
        if c.client_lost or c.client_closing:
            if got > pre + 4 + 70000:
                res.violate("framing/oversize-buffered", "bytes after an impossible length prefix kept flowing")
        else:
            if got >= pre + 4:
                res.violate("framing/oversize-not-closed", "a length prefix >= 2**31 did not terminate the "
                            "connection", delivered=got, prefix_end=pre + 4)
        res.ob("oversize_closes")
    res.hit("reentrant_actions", len(tr.reentrant))
    nchunks = sum(len(c.s2c) for c in tr.net.conns)
    res.hit("chunked_deliveries", nchunks)
    if any_wire:
        res.sig = sig(sc["chunk"], sc["end"], len(sc["ids"]), tuple(tr.clock.trace))
    if res.sample is None:
        res.sample = dict(kind="brokerclient", scenario={k: sc[k] for k in ("ids", "actions", "injections", "connect",
                                                                           "cuts", "end", "chunk", "latency")},
                          outcomes={str(k): v for k, v in bc.outcome_table(tr).items()},
                          events=len(tr.clock.trace), trace_head=tr.clock.trace[:25])


def run_bootstrap(spec, res):
    """KafkaBootstrapProtocol.request(): 1-4 concurrent requests on one connection."""
    import random
    from afkak._protocol import bootstrapFactory
    from ..simnet import SimClock, SimNet
    from ..traps import Traps
    rng = random.Random(spec["seed"])
    clock = SimClock()
    net = SimNet(clock, rng, max_latency=rng.choice((0.0, 0.01)),
                 chunk_mode=rng.choice(("whole", "bytes", "random", "coalesce", "prefix_split")))
    n = rng.randint(1, 4)
    ids = rng.sample(range(1, 2 ** 31 - 1), n)
    order = list(ids)
    rng.shuffle(order)
    mode = rng.choice(("answer_all", "answer_some_then_close", "close", "unknown_then_answers", "oversize"))
    plan = dict(default=("never",))
    server = bc.RawServer(clock, rng, plan)
    net.listen(bc.HOST, bc.PORT, server)
    fires = {i: [] for i in ids}
    res.hit("bootstrap_scenarios")
    with Traps() as traps:
        ep = net(clock, bc.HOST, bc.PORT)
        box = {}

        def connected(proto):
            box["proto"] = proto
            for i in ids:
                d = proto.request(bc.make_request_bytes(i, b"boot"))
                d.addCallbacks(lambda r, i=i: fires[i].append((clock.seconds(), True, r)),
                               lambda f, i=i: fires[i].append((clock.seconds(), False, type(f.value).__name__)))
        ep.connect(bootstrapFactory).addCallback(connected)
        clock.run(until=1.0)
        conn = server.conns[0] if server.conns else None
        answered = []
        if conn is not None:
            if mode == "answer_all":
                for i in order:
                    server.send_frame(conn, i)
                    answered.append(i)
            elif mode == "answer_some_then_close":
                for i in order[:len(order) // 2]:
                    server.send_frame(conn, i)
                    answered.append(i)
                conn.server_close(clean=rng.random() < 0.5)
            elif mode == "close":
                conn.server_close(clean=rng.random() < 0.5)
            elif mode == "unknown_then_answers":
                server.send_frame(conn, 424242, "unknown_id")
                for i in order:
                    server.send_frame(conn, i)
                    answered.append(i)
            else:
                server.inject("oversize")
        clock.run(until=5.0)
        if conn is not None and not conn.client_lost and "proto" in box:
            box["proto"].transport.loseConnection()
        clock.run(until=9.0)
        traps.flush()
    sent = {}
    for (_t, _c, body, kind) in server.sent:
        if len(body) >= 4 and kind != "oversize":
            sent.setdefault(struct.unpack(">i", body[:4])[0], []).append(body)
    for i in ids:
        f = fires[i]
        if len(f) != 1:
            res.violate("bootstrap/%s" % ("fired-twice" if len(f) > 1 else "never-fired"),
                        "bootstrap request Deferred fired %d times" % len(f), mode=mode, rid=i)
            continue
        res.ob("bootstrap_exactly_once")
        t, ok, val = f[0]
        if ok:
            if val not in sent.get(i, []):
                res.violate("bootstrap/foreign-response", "bootstrap request completed with bytes that are not a "
                            "frame bearing its id", rid=i, value=val)
            elif i not in answered:
                res.violate("bootstrap/answered-unexpectedly", "completed although the server never answered it")
            res.ob("bootstrap_own_response")
        else:
            if i in answered and mode == "answer_all":
                res.violate("bootstrap/failed-despite-answer", "request failed although its response was delivered",
                            rid=i, err=val)
            res.ob("bootstrap_fails_on_connection_end")
    for e in clock.errors:
        if e[2] == "AlreadyCalledError":
            res.violate("bootstrap/fired-twice/AlreadyCalledError", e[3][-300:])
        else:
            res.ev("diag_reactor_event_raised_" + e[2])
    for u in traps.unhandled:
        if u[0] == "AlreadyCalledError":
            res.violate("bootstrap/fired-twice/AlreadyCalledError", u[1])
        else:
            res.ev("diag_unhandled_failure_" + u[0])
    if mode == "oversize" and conn is not None and not (conn.client_closing or conn.client_lost):
        res.violate("bootstrap/framing/oversize-not-closed", "length prefix >= 2**31 did not terminate the connection")
    if mode == "oversize":
        res.hit("oversize_prefix")
    res.sig = sig("bootstrap", mode, n, net.chunk_mode, tuple(clock.trace))
    res.sample = dict(kind="bootstrap", mode=mode, ids=ids, fires={str(k): v for k, v in fires.items()})


def run(spec):
    res = Result()
    if spec["kind"] == "bootstrap":
        run_bootstrap(spec, res)
        return res
    if spec["kind"] == "pattern":
        sc = bc.pattern_scenario(spec["seed"])
        res.hit("pattern_" + sc["pattern"])
    else:
        sc = bc.gen_scenario(spec["seed"], spec.get("variant"))
    tr = bc.run_scenario(sc, debug=spec.get("debug", False))
    tr2 = None
    if any(k in ("unknown_id", "cancelled_id") for (_t, k, _r) in sc["injections"]):
        tr2 = bc.run_scenario(sc, ghost=True)
    check_trace(res, tr, tr2)
    return res

"""C12 -- corrupted or truncated message data is never delivered as a message.

(a) every single-bit flip and sampled bursts (<= 32 bits) inside the checksummed
    region of every top-level message -> ChecksumError, nothing altered yielded;
(b) every truncation point of a set -> exactly the complete messages, or
    ConsumerFetchSizeTooSmall when none is complete;
(c) arbitrary / mutated / hostile bytes into every decoder: terminates with a
    value or an Exception within a linear bound on traced line events and on
    tracemalloc peak.
"""
import random
import struct
import sys
import tracemalloc

from ..core import Result, sig
from .. import gen as G
from .. import refproto as R
from . import c05

ID = "C12"
LEVEL = "fault_enumeration"
RULE = ("(a)/(b): each evaluation is one mutant (bit flip, burst, truncation point) of a generated message set, "
        "enumerated exhaustively per set for single bits and truncation points; (c): one byte string given to one "
        "decoder. distinct = distinct (decoder, mutated bytes); non-trivial = the mutant differs from the original "
        "/ the byte string is non-empty. (b) end to end: one real Consumer facing a record larger than its buffer "
        "(sizes drawn around the buffer, 1 MiB and the maximum) through the real client and decoder")
ASSUMPTIONS = ["CRC-32 detects every single-bit error and every burst of <= 32 bits that lies inside the bytes the "
               "CRC covers; bursts straddling the stored-CRC field and the body are not generated (the CRC precedes "
               "the body on the wire, so such an error is not a burst in codeword order)",
               "resource bound for (c): traced line events <= 60*(n+64) and tracemalloc peak <= 64*n + 262144 (+128 KiB per gzip stream "
               "opened: zlib's fixed window) where n = input length + bytes actually inflated by gzip during the "
               "call; the largest ratio measured on valid inputs is 2.5 lines per byte; deliberately crafted "
               "decompression bombs are not generated",
               "python-snappy absent: snappy paths raise NotImplementedError, which counts as an exception"]
REACH_MIN = {"bit_flips": {"quick": 80964, "thorough": 1064988}, "bursts": {"quick": 6820, "thorough": 89709},
             "truncations": {"quick": 12236, "thorough": 160950}, "arbitrary": {"quick": 12320, "thorough": 162055},
             "hostile_counts": {"quick": 4000, "thorough": 52615},
             "hostile_pairs": {"quick": 20000, "thorough": 1000000},
             "truncations_inside_fetch_responses": {"quick": 8000, "thorough": 100000},
             "hostile_field_pairs": {"quick": 40000, "thorough": 800000},
             "consumer_oversized_runs": {"quick": 26, "thorough": 342},
             "inner_message_alterations": {"quick": 2000, "thorough": 40000}}

STEP_A = 60
MEM_B = 64
MEM_C = 262144


class StepLimit(BaseException):
    pass


def cases(tier, seed):
    out = []
    n_sets = {"quick": 128, "thorough": 2400}[tier]
    for i in range(n_sets):
        out.append(dict(kind="corrupt", seed=seed * 31337 + i))
    n_arb = {"quick": 32, "thorough": 960}[tier]
    for i in range(n_arb):
        out.append(dict(kind="arbitrary", seed=seed * 27449 + i, n=700))
    # hostile values in TWO length/count fields at once, on tiny valid responses, every pair of positions
    n_pairs = {"quick": 16, "thorough": 320}[tier]
    for i in range(n_pairs):
        out.append(dict(kind="pairs", seed=seed * 15485863 + i, n={"quick": 2500, "thorough": 6000}[tier]))
    # the consumer half of the sentence ("the consumer then enlarges its buffer rather than skipping"), end to end
    n_cons = {"quick": 48, "thorough": 1200}[tier]
    for i in range(n_cons):
        out.append(dict(kind="consumer", seed=seed * 1000003 + 1250000 + i))
    return out


# -- helpers ---------------------------------------------------------------


def gen_set(rng, K, KC, Message):
    """A message set <= ~2 KiB with its top-level entry boundaries and logical content."""
    entries = []  # (bytes of entry, [logical (magic, attrs, key, value, ts)], crc_field_pos, body_start, end) relative
    use_afkak = rng.random() < 0.4
    off = rng.choice((0, 7, 2 ** 33))
    for _ in range(rng.randint(1, 4)):
        magic = rng.choice((0, 1))
        n = rng.randint(1, 3)
        logical = []
        for (m, a, k, v, ts) in c05.gen_logical(rng, magic, n, small=True):
            if v is not None and len(v) > 60:
                v = v[:60]
            logical.append((m, 0, k, v, ts))
        if rng.random() < 0.35:  # gzip wrapper
            if use_afkak:
                msgs = [Message(m, 0, k, v, ts) if m else Message(0, 0, k, v) for (m, a, k, v, ts) in logical]
                w = KC.create_gzip_message(msgs, magic)
                if magic == 1:
                    w = Message(1, w.attributes, None, w.value, 99)
                raw = K._encode_message(w)
                # afkak writes inner offsets 0 (None base); decoded offsets are not compared for these
                entries.append((off + n - 1, raw, logical, None))
            else:
                if magic == 0:
                    inner = [(off + i, R.encode_message(k, v, 0, 0, None)) for i, (m, a, k, v, ts) in enumerate(logical)]
                else:
                    inner = [(i, R.encode_message(k, v, 1, 0, ts)) for i, (m, a, k, v, ts) in enumerate(logical)]
                wo, raw = R.encode_wrapper(inner, off + n - 1, magic=magic, timestamp=5 if magic else None)
                entries.append((wo, raw, logical, [off + i for i in range(n)]))
            off += n
        else:
            (m, a, k, v, ts) = logical[0]
            if use_afkak:
                raw = K._encode_message(Message(m, 0, k, v, ts) if m else Message(0, 0, k, v))
            else:
                raw = R.encode_message(k, v, m, 0, ts)
            entries.append((off, raw, [logical[0]], [off]))
            off += 1
    data = b""
    bounds = []
    for (o, raw, logical, offs) in entries:
        start = len(data)
        data += struct.pack(">qi", o, len(raw)) + raw
        bounds.append(dict(start=start, crc=start + 12, body=start + 16, end=len(data), logical=logical, offsets=offs))
    return data, bounds, ("afkak" if use_afkak else "ref")


def decode_collect(K, data):
    """Iterate the decoder; returns (list of normalised yields, exception or None)."""
    out = []
    try:
        for om in K._decode_message_set_iter(data):
            m = om.message
            out.append((om.offset, m.magic, m.attributes, m.key, m.value, m.timestamp))
    except Exception as e:  # noqa
        return out, e
    return out, None


def logical_of(bounds, upto):
    out = []
    for b in bounds[:upto]:
        for i, (m, a, k, v, ts) in enumerate(b["logical"]):
            out.append((b["offsets"][i] if b["offsets"] else None, m, a, k, v, ts))
    return out


def same(got, want):
    if len(got) != len(want):
        return False
    for g, w in zip(got, want):
        if w[0] is not None and g[0] != w[0]:
            return False
        if g[1:] != w[1:]:
            return False
    return True


def run_corrupt(spec, res):
    from afkak.kafkacodec import KafkaCodec as K
    from afkak import kafkacodec as KC
    from afkak.common import ChecksumError, ConsumerFetchSizeTooSmall, Message
    rng = random.Random(spec["seed"])
    data, bounds, enc = gen_set(rng, K, KC, Message)
    got, exc = decode_collect(K, data)
    if exc is not None or not same(got, logical_of(bounds, len(bounds))):
        res.violate("baseline/valid-set-does-not-decode", "the unmutated set does not decode to its content",
                    exc=repr(exc), got=got[:5], encoder=enc)
        return
    res.hit("sets_" + enc)
    buf = bytearray(data)

    def check_mutant(mut, bi, what):
        got, exc = decode_collect(K, bytes(mut))
        before = logical_of(bounds, bi)
        if isinstance(exc, ChecksumError):
            if not same(got, before):
                res.violate("corruption/%s/messages-before-damage-altered" % what,
                            "messages before the damaged one were not the originals", entry=bi, got=got[:5])
            return
        full = logical_of(bounds, len(bounds))
        if exc is None:
            kind = "undetected-original-content" if same(got, full) else "altered-content-yielded"
        else:
            kind = "wrong-exception-%s" % type(exc).__name__
            if len(got) > len(before):
                kind = "altered-content-yielded-then-%s" % type(exc).__name__
        res.violate("corruption/%s/%s" % (what, kind), "a damaged message did not produce ChecksumError",
                    entry=bi, exc=repr(exc), yielded=len(got), expected_before=len(before), data=bytes(mut)[:160],
                    encoder=enc)

    nflip = 0
    for bi, b in enumerate(bounds):
        for pos in range(b["crc"], b["end"]):
            for bit in range(8):
                buf[pos] ^= 1 << bit
                check_mutant(buf, bi, "bit-in-crc-field" if pos < b["body"] else "single-bit")
                buf[pos] ^= 1 << bit
                nflip += 1
    res.hit("bit_flips", nflip)
    res.ob("single_bit_flip_detected", nflip)
    res.n_sub += nflip
    res.sigs.add(sig("flips", data))
    # bursts inside the checksummed body
    nb = 0
    for bi, b in enumerate(bounds):
        nbits = (b["end"] - b["body"]) * 8
        for _ in range(40):
            L = rng.randint(2, 32)
            if nbits < L:
                continue
            s = rng.randint(0, nbits - L)
            mask_bits = [s, s + L - 1] + [s + j for j in range(1, L - 1) if rng.random() < 0.5]
            mut = bytearray(data)
            for mb in set(mask_bits):
                mut[b["body"] + mb // 8] ^= 0x80 >> (mb % 8)
            check_mutant(mut, bi, "burst")
            nb += 1
    res.hit("bursts", nb)
    res.ob("burst_detected", nb)
    res.n_sub += nb
    # truncation: every cut point
    nt = 0
    for cut in range(0, len(data) + 1):
        got, exc = decode_collect(K, data[:cut])
        complete = sum(1 for b in bounds if b["end"] <= cut)
        want = logical_of(bounds, complete)
        nt += 1
        if cut > 0 and complete == 0:
            if not isinstance(exc, ConsumerFetchSizeTooSmall) or got:
                res.violate("truncation/no-complete-message/%s" % (type(exc).__name__ if exc else "no-signal"),
                            "a non-empty prefix holding no complete message must raise ConsumerFetchSizeTooSmall",
                            cut=cut, exc=repr(exc), got=got[:3])
            continue
        if exc is not None:
            res.violate("truncation/raised-%s" % type(exc).__name__, "truncated set with complete messages raised",
                        cut=cut, complete=complete, exc=repr(exc))
        elif not same(got, want):
            kind = "partial-or-extra-yielded" if len(got) > len(want) else "complete-message-dropped"
            res.violate("truncation/%s" % kind, "truncated set did not yield exactly its complete messages", cut=cut,
                        complete=complete, got=len(got), want=len(want))
    res.hit("truncations", nt)
    res.ob("truncation_exact", nt)
    res.n_sub += nt
    # the same cut sets as they reach a client: as the record data of a partition that is NOT the last one of a fetch
    # response (a broker cuts every partition's data at max_bytes) - what follows in the response is not part of it
    tail_set = R.encode_message_set([(7, R.encode_message(b"tk", b"tail-value" * 3, 0, 0, None)),
                                     (8, R.encode_message(None, b"t2", 0, 0, None))])
    ne = 0
    step = 1 if len(data) <= 160 else 3
    for cut in range(0, len(data) + 1, step):
        direct, dexc = decode_collect(K, data[:cut])
        for ver in (0, 2):
            shape = (cut + ver) % 3
            if shape == 0:
                topics = [("ta", [(0, 0, 50, data[:cut]), (1, 0, 9, tail_set)])]
            elif shape == 1:
                topics = [("ta", [(0, 0, 50, data[:cut])]), ("tb", [(4, 0, 9, tail_set)])]
            else:
                topics = [("ta", [(3, 0, 9, tail_set), (0, 0, 50, data[:cut]), (1, 0, 9, tail_set)])]
            resp = R.resp_fetch(5, topics, version=ver)
            got_e, exc_e, others_ok = [], None, True
            try:
                for fr in K.decode_fetch_response(resp, api_version=ver):
                    if fr.partition == 0 and fr.topic == "ta":
                        try:
                            for om in fr.messages:
                                m = om.message
                                got_e.append((om.offset, m.magic, m.attributes, m.key, m.value, m.timestamp))
                        except Exception as e:  # noqa
                            exc_e = e
                    else:
                        try:
                            others = [(om.offset, om.message.value) for om in fr.messages]
                        except Exception:
                            others = None
                        if others != [(7, b"tail-value" * 3), (8, b"t2")]:
                            others_ok = False
            except Exception as e:  # noqa
                exc_e = e
            ne += 1
            if type(exc_e) is not type(dexc) or got_e != direct:
                res.violate("truncation/embedded-set-decodes-differently/%s" % (type(exc_e).__name__ if exc_e else
                                                                                 "no-exception"),
                            "a cut message set decodes to %d message(s)%s on its own, but to %d%s as the data of a "
                            "partition that other data follows in a fetch v%d response" % (
                                len(direct), " then " + type(dexc).__name__ if dexc else "", len(got_e),
                                " then " + type(exc_e).__name__ if exc_e else "", ver), cut=cut)
            if not others_ok:
                res.violate("truncation/neighbouring-partition-disturbed", "the partition following (or preceding) "
                            "a cut message set in a fetch v%d response did not decode to its own messages" % ver,
                            cut=cut)
    res.hit("truncations_inside_fetch_responses", ne)
    res.ob("truncation_exact_inside_fetch_response", ne)
    res.n_sub += ne
    # damage INSIDE a compressed wrapper: one inner message altered before compression, the wrapper's own checksum
    # computed over the result and therefore valid -- only the inner message's checksum can tell
    ni = 0
    for _ in range(3):
        magic = rng.choice((0, 1))
        n = rng.randint(1, 3)
        logical = [(m, 0, k, (v[:40] if v else v), ts) for (m, a, k, v, ts) in c05.gen_logical(rng, magic, n, small=True)]
        base = rng.choice((0, 9, 2 ** 33))
        raws = [R.encode_message(k, v, magic, 0, ts) for (m, a, k, v, ts) in logical]
        j = rng.randrange(n)
        want_before = [((base + i), m, a, k, v, ts) for i, (m, a, k, v, ts) in enumerate(logical[:j])]
        for _k in range(12):
            pos = rng.randrange(0, len(raws[j]))
            mutated = bytearray(raws[j])
            if rng.random() < 0.7:
                mutated[pos] ^= 1 << rng.randrange(8)
            else:
                L = rng.randint(2, 32)
                start = rng.randrange(0, max(1, len(mutated) * 8 - L))
                for bitpos in set([start, start + L - 1] + [start + x for x in range(1, L - 1) if rng.random() < 0.5]):
                    if bitpos // 8 < len(mutated):
                        mutated[bitpos // 8] ^= 0x80 >> (bitpos % 8)
            if bytes(mutated) == raws[j]:
                continue
            msgs = list(raws)
            msgs[j] = bytes(mutated)
            inner = [((base + i) if magic == 0 else i, msgs[i]) for i in range(n)]
            wo, wraw = R.encode_wrapper(inner, base + n - 1, magic=magic, timestamp=5 if magic else None)
            setbytes = struct.pack(">qi", wo, len(wraw)) + wraw
            got_i, exc_i = decode_collect(K, setbytes)
            ni += 1
            if isinstance(exc_i, ChecksumError) and len(got_i) <= j and same(got_i, want_before[:len(got_i)]):
                continue  # (a wrapper may be decoded as a whole before anything of it is yielded)
            if exc_i is None and len(got_i) <= j and same(got_i, want_before[:len(got_i)]):
                # the damage hit a length field and the decoder took the rest for a cut-off tail: nothing altered
                # was yielded (the statement asks for the checksum error; the outer truncation rule allows this only
                # for the LAST message of a set, which an inner message followed by others is not)
                if j == n - 1:
                    continue
            what = "altered-content-yielded" if len(got_i) > j else (
                "wrong-exception-%s" % type(exc_i).__name__ if exc_i is not None else "silently-dropped")
            res.violate("corruption/inside-wrapper/%s" % what, "an inner message of a compressed wrapper was altered "
                        "(the wrapper's own checksum is valid) and decoding did not fail with ChecksumError",
                        magic=magic, inner_index=j, of=n, exc=repr(exc_i), yielded=len(got_i))
    res.hit("inner_message_alterations", ni)
    res.ob("inner_alteration_detected", ni)
    res.n_sub += ni
    if res.sample is None:
        res.sample = dict(kind="corrupt", encoder=enc, set_hex=data[:80].hex(), set_len=len(data),
                          entries=[(b["start"], b["end"], len(b["logical"])) for b in bounds],
                          bit_flips=nflip, bursts=nb, truncation_points=nt)


# -- (c) -------------------------------------------------------------------


def decoders(K):
    def ex(f):
        return lambda d: list(f(d))

    def fetch(v):
        def f(d):
            out = []
            for r in K.decode_fetch_response(d, api_version=v):
                out.append(list(r.messages))
            return out
        return f
    return [
        ("produce_v0", ex(lambda d: K.decode_produce_response(d, 0))),
        ("produce_v2", ex(lambda d: K.decode_produce_response(d, 2))),
        ("fetch_v0", fetch(0)), ("fetch_v2", fetch(2)),
        ("list_offsets", ex(K.decode_offset_response)),
        ("metadata", K.decode_metadata_response),
        ("find_coordinator", K.decode_consumermetadata_response),
        ("offset_commit", ex(K.decode_offset_commit_response)),
        ("offset_fetch", ex(K.decode_offset_fetch_response)),
        ("join_group", K.decode_join_group_response),
        ("sync_group", K.decode_sync_group_response),
        ("heartbeat", K.decode_heartbeat_response),
        ("leave_group", K.decode_leave_group_response),
        ("api_versions", K.decode_api_versions_response),
        ("subscription", K.decode_join_group_protocol_metadata),
        ("assignment", K.decode_sync_group_member_assignment),
        ("correlation_id", K.get_response_correlation_id),
        ("message_set", ex(K._decode_message_set_iter)),
    ]


class Meter(object):
    """Counts traced line events (sys.monitoring) and inflated gzip bytes."""

    def __init__(self):
        self.steps = 0
        self.cap = 0
        self.inflated = 0
        self.gzip_calls = 0
        self.tripped = False
        self.mon = getattr(sys, "monitoring", None)
        self.tool = None

    def install(self, KC):
        orig = KC.gzip_decode
        meter = self

        def counting_gzip_decode(payload):
            out = orig(payload)
            meter.inflated += len(out)
            meter.gzip_calls += 1
            return out
        KC.gzip_decode = counting_gzip_decode
        self._restore = lambda: setattr(KC, "gzip_decode", orig)
        if self.mon is not None:
            self.tool = self.mon.PROFILER_ID
            try:
                self.mon.use_tool_id(self.tool, "afkverif-c12")
            except ValueError:
                self.mon.free_tool_id(self.tool)
                self.mon.use_tool_id(self.tool, "afkverif-c12")
            self.mon.register_callback(self.tool, self.mon.events.LINE, self._line)

    def _line(self, code, line):
        self.steps += 1
        if self.steps > self.cap and not self.tripped:
            self.tripped = True
            raise StepLimit()

    def start(self, cap):
        self.steps = 0
        self.tripped = False
        self.cap = cap
        self.inflated = 0
        self.gzip_calls = 0
        if self.mon is not None:
            self.mon.set_events(self.tool, self.mon.events.LINE)
        else:
            sys.settrace(self._trace)

    def _trace(self, frame, event, arg):
        if event == "line":
            self._line(None, None)
        return self._trace

    def stop(self):
        if self.mon is not None:
            self.mon.set_events(self.tool, 0)
        else:
            sys.settrace(None)

    def uninstall(self):
        self._restore()
        if self.mon is not None:
            self.mon.register_callback(self.tool, self.mon.events.LINE, None)
            self.mon.free_tool_id(self.tool)


HOSTILE32 = (0x7FFFFFFF, 0x7FFFFFF0, -2, -1, 0x00FFFFFF, 65536, 1024, 1025, 0x40000000)
HOSTILE16 = (0x7FFF, -2, -1, 0x7FF0)


def nested_wrappers(rng, depth):
    msg = R.encode_message(b"k", b"v" * rng.randint(0, 30), 0, 0, None)
    entry = (5, msg)
    for _ in range(depth):
        entry = R.encode_wrapper([entry], 5, magic=0)
    return R.encode_message_set([entry])


def run_arbitrary(spec, res):
    from afkak.kafkacodec import KafkaCodec as K
    from afkak import kafkacodec as KC
    rng = random.Random(spec["seed"])
    decs = decoders(K)
    byname = dict(decs)
    gens = {g.__name__[4:]: g for g in c05.RESPONSE_GENS}
    # a pool of valid encodings, by decoder name
    pool = []
    for _ in range(60):
        g = rng.choice(c05.RESPONSE_GENS)
        try:
            name, data, exp, got = g(rng, K)
        except Exception:
            continue
        if name in byname:
            pool.append((name, data))
    for _ in range(12):
        exp, data, tags = c05.gen_ref_set(rng)
        pool.append(("message_set", data))
    meter = Meter()
    meter.install(KC)
    tracemalloc.start()
    worst_steps = 0.0
    worst_mem = 0.0
    try:
        for it in range(spec["n"]):
            mode = it % 7
            hostile = False
            if mode == 0:
                name, fn = rng.choice(decs)
                n = rng.choice((0, 1, 3, 4, 5, 8, 13, 40, 200, 5000))
                data = rng.getrandbits(8 * n).to_bytes(n, "big") if n else b""
            elif mode in (1, 2):
                name, data = rng.choice(pool)
                mut = bytearray(data)
                for _ in range(rng.randint(1, 4)):
                    op = rng.randint(0, 4)
                    if not mut:
                        break
                    p = rng.randrange(len(mut))
                    if op == 0:
                        mut[p] ^= 1 << rng.randint(0, 7)
                    elif op == 1:
                        mut.insert(p, rng.getrandbits(8))
                    elif op == 2:
                        del mut[p]
                    elif op == 3:
                        del mut[p:]
                    else:
                        other = rng.choice(pool)[1]
                        q = rng.randrange(len(other) + 1)
                        mut[p:] = other[q:]
                data = bytes(mut)
            elif mode in (3, 4):
                hostile = True
                name, data = rng.choice(pool)
                mut = bytearray(data)
                if len(mut) >= 4:
                    p = rng.randrange(len(mut) - 3)
                    mut[p:p + 4] = struct.pack(">i", rng.choice(HOSTILE32))
                if len(mut) >= 2 and rng.random() < 0.3:
                    p = rng.randrange(len(mut) - 1)
                    mut[p:p + 2] = struct.pack(">h", rng.choice(HOSTILE16))
                data = bytes(mut)
            elif mode == 5:
                hostile = True
                name = rng.choice(("message_set", "fetch_v0", "fetch_v2"))
                ms = nested_wrappers(rng, rng.randint(1, 40))
                data = ms if name == "message_set" else R.resp_fetch(1, [("t", [(0, 0, 10, ms)])],
                                                                       version=int(name[-1]))
            else:
                hostile = True
                name = "metadata"
                nb = rng.choice((1023, 1024, 1025, 2 ** 31 - 1))
                data = struct.pack(">ii", 7, nb) + b"".join(
                    struct.pack(">i", i) + R.w_string("h") + struct.pack(">i", 9092) for i in range(rng.randint(0, 30)))
            fn = byname[name]
            n_in = len(data)
            cap = STEP_A * (n_in + 64) * 40  # hard stop far above the verdict bound (inflation unknown yet)
            tracemalloc.reset_peak()
            base = tracemalloc.get_traced_memory()[0]
            outcome = "value"
            meter.start(cap)
            try:
                fn(data)
            except StepLimit:
                outcome = "step-limit"
            except Exception as e:
                outcome = "exc:" + type(e).__name__
            except BaseException as e:  # SystemExit & co: not "an exception" a caller can be expected to handle
                outcome = "base:" + type(e).__name__
            finally:
                meter.stop()
            peak = tracemalloc.get_traced_memory()[1] - base
            n_eff = n_in + meter.inflated
            res.n_sub += 1
            res.hit("arbitrary")
            if hostile:
                res.hit("hostile_counts")
            res.ev(outcome.split(":")[0])
            if data:
                res.sigs.add(sig(name, data))
            if outcome == "step-limit" or meter.tripped or meter.steps > STEP_A * (n_eff + 64):
                res.violate("arbitrary/%s/steps-not-proportional" % name, "decoder ran more than %d*(n+64) traced "
                            "lines" % STEP_A, n=n_eff, steps=meter.steps, data=data[:200], mode=mode)
            if outcome.startswith("base:"):
                res.violate("arbitrary/%s/non-exception-%s" % (name, outcome[5:]), "decoder raised a BaseException",
                            data=data[:200])
            if peak > MEM_B * n_eff + MEM_C + 131072 * meter.gzip_calls:
                res.violate("arbitrary/%s/memory-not-proportional" % name, "tracemalloc peak above %d*n+%d" % (
                    MEM_B, MEM_C), n=n_eff, peak=peak, data=data[:200], mode=mode)
            res.ob("terminates_within_bounds")
            worst_steps = max(worst_steps, meter.steps / float(n_eff + 64))
            worst_mem = max(worst_mem, (peak - MEM_C) / float(n_eff + 1))
    finally:
        tracemalloc.stop()
        meter.uninstall()
    res.reach["max_steps_per_byte_x100"] = int(worst_steps * 100)
    res.sample = dict(kind="arbitrary", worst_steps_per_byte=round(worst_steps, 3),
                      worst_mem_per_byte_beyond_c=round(worst_mem, 3), outcomes=dict(res.events))


HOSTILE_PAIR = (0x7FFFFFFF, 0x40000000, 1025, 3, -1, -2, -4, -6, -8, -10, -12, -14, -18, -22, -26, -30)


def tiny_responses(rng):
    """Small valid responses of the list-shaped APIs (one or two topics/partitions, short names)."""
    ms = R.encode_message_set([(3, R.encode_message(None, b"v", 0, 0, None))]) if rng.random() < 0.5 else b""
    tn = rng.choice(("t", "tt"))
    parts2 = rng.random() < 0.4
    L = 2 + len(tn)

    def fields(first, per_part_header, inner=True):
        # offsets of the int32 count / length fields: topics, partitions, and the field that follows the fixed
        # per-partition header (message-set size, offset count) of the first partition
        f = [first, first + 4 + L]
        if inner:
            f.append(first + 4 + L + 4 + per_part_header)
        return f
    out = [
        ("fetch_v0", R.resp_fetch(1, [(tn, [(0, 0, 10, ms)] + ([(1, 0, 7, b"")] if parts2 else []))], version=0),
         fields(4, 14)),
        ("fetch_v2", R.resp_fetch(1, [(tn, [(0, 0, 10, ms)] + ([(1, 0, 7, b"")] if parts2 else []))], version=2),
         fields(8, 14)),
        ("produce_v0", R.resp_produce(1, [(tn, [(0, 0, 5)] + ([(1, 0, 6)] if parts2 else []))], version=0),
         fields(4, 0, False)),
        ("produce_v2", R.resp_produce(1, [(tn, [(0, 0, 5, -1)])], version=2), fields(4, 0, False)),
        ("list_offsets", R.resp_list_offsets(1, [(tn, [(0, 0, [9, 4])])]), fields(4, 6)),
        ("offset_commit", R.resp_offset_commit(1, [(tn, [(0, 0)] + ([(1, 0)] if parts2 else []))]),
         fields(4, 0, False)),
        ("offset_fetch", R.resp_offset_fetch(1, [(tn, [(0, 5, "", 0)])]), fields(4, 0, False)),
        ("metadata", R.resp_metadata(1, [(1, "h", 9)], [(0, tn, [(0, 0, 1, [1], [1])])]), [4, 4 + 4 + 4 + 3 + 4]),
        ("join_group", R.resp_join_group(1, 0, 1, "p", "m", "m", [("m", b"\0\0")]), None),
        ("message_set", R.encode_message_set([(3, R.encode_message(b"k", b"v", 0, 0, None)),
                                              (4, R.encode_message(None, b"w", 1, 0, 5))]), [8]),
    ]
    return out


def run_pairs(spec, res):
    from afkak.kafkacodec import KafkaCodec as K
    from afkak import kafkacodec as KC
    rng = random.Random(spec["seed"])
    byname = dict(decoders(K))
    tiny = tiny_responses(rng)
    meter = Meter()
    meter.install(KC)
    tracemalloc.start()
    worst_steps = 0.0
    try:
        # first every pair of count/length fields with every pair of hostile values, then random position pairs
        todo = []
        for (name, data, flds) in tiny:
            if not flds:
                continue
            for i_, a in enumerate(flds):
                for b in flds[i_ + 1:]:
                    for va in HOSTILE_PAIR:
                        for vb in HOSTILE_PAIR:
                            todo.append((name, data, a, b, va, vb))
        for it in range(len(todo) + spec["n"]):
            if it < len(todo):
                name, data, p, q, va, vb = todo[it]
                res.hit("hostile_field_pairs")
            else:
                name, data, _f = tiny[it % len(tiny)]
                p = rng.randrange(len(data) - 3)
                q = rng.randrange(len(data) - 3)
                if abs(p - q) < 4:
                    q = (p + 4 + rng.randrange(max(1, len(data) - 7))) % (len(data) - 3)
                va, vb = rng.choice(HOSTILE_PAIR), rng.choice(HOSTILE_PAIR)
            fn = byname[name]
            mut = bytearray(data)
            mut[p:p + 4] = struct.pack(">i", va)
            if abs(p - q) >= 4:
                mut[q:q + 4] = struct.pack(">i", vb)
            data2 = bytes(mut)
            n_in = len(data2)
            cap = STEP_A * (n_in + 64) * 40
            tracemalloc.reset_peak()
            base = tracemalloc.get_traced_memory()[0]
            outcome = "value"
            meter.start(cap)
            try:
                fn(data2)
            except StepLimit:
                outcome = "step-limit"
            except Exception as e:
                outcome = "exc:" + type(e).__name__
            except BaseException as e:
                outcome = "base:" + type(e).__name__
            finally:
                meter.stop()
            peak = tracemalloc.get_traced_memory()[1] - base
            n_eff = n_in + meter.inflated
            res.n_sub += 1
            res.hit("hostile_pairs")
            res.ev(outcome.split(":")[0])
            res.sigs.add(sig(name, data2))
            if outcome == "step-limit" or meter.tripped or meter.steps > STEP_A * (n_eff + 64):
                res.violate("arbitrary/%s/steps-not-proportional" % name, "decoder ran more than %d*(n+64) traced "
                            "lines on a %d-byte input with two hostile length/count fields" % (STEP_A, n_in),
                            n=n_eff, steps=meter.steps, data=data2[:200], at=(p, q))
            if outcome.startswith("base:"):
                res.violate("arbitrary/%s/non-exception-%s" % (name, outcome[5:]), "decoder raised a BaseException",
                            data=data2[:200])
            if peak > MEM_B * n_eff + MEM_C + 131072 * meter.gzip_calls:
                res.violate("arbitrary/%s/memory-not-proportional" % name, "tracemalloc peak above %d*n+%d" % (
                    MEM_B, MEM_C), n=n_eff, peak=peak, data=data2[:200], at=(p, q))
            res.ob("terminates_within_bounds")
            worst_steps = max(worst_steps, meter.steps / float(n_eff + 64))
    finally:
        tracemalloc.stop()
        meter.uninstall()
    res.reach["max_steps_per_byte_x100"] = int(worst_steps * 100)


def run(spec):
    res = Result()
    if spec["kind"] == "pairs":
        run_pairs(spec, res)
    elif spec["kind"] == "corrupt":
        run_corrupt(spec, res)
    elif spec["kind"] == "consumer":
        from . import c14
        c14.run_growth(spec, res)
        res.hit("consumer_oversized_runs")
    else:
        run_arbitrary(spec, res)
    return res


def coverage_extra(tier, seed, results):
    worst = max([r.get("reach", {}).get("max_steps_per_byte_x100", 0) for r in results] or [0])
    return dict(exhaustive=False, exhaustive_per_set="every bit of every top-level message (CRC field and body) and "
                "every truncation point of each generated set is enumerated; sets themselves are sampled",
                worst_traced_lines_per_input_byte=worst / 100.0, step_bound="%d*(n+64)" % STEP_A,
                memory_bound="%d*n+%d" % (MEM_B, MEM_C))

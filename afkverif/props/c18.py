"""C18 -- partitioners: deterministic, in range, Java-compatible, fair.

Differential oracle: afkak's pure_murmur2 / HashedPartitioner against three
independent references (Java transcription of Utils.murmur2 run on the JVM,
Appleby's C MurmurHash2, and a Python transcription written here), plus a
window-fairness monitor over generated selection histories of
RoundRobinPartitioner.
"""
import os
import random
import subprocess

from ..core import VERIF_DIR, Result, sig

ID = "C18"
LEVEL = "exploration"
RULE = ("hash: each evaluation is one generated key (every length 0..67 many times, bytes >= 0x80 in each tail "
        "position, long keys, multi-byte UTF-8 text) hashed by afkak and by the references, with a generated "
        "partition list; distinct = distinct (key bytes, list); non-trivial = every one (a hash comparison is never "
        "vacuous). round-robin: each evaluation is one generated history of partition() calls with list changes; "
        "non-trivial when some run with an unchanged list is at least two cycles long")
ASSUMPTIONS = ["Java reference is a line-by-line transcription of org.apache.kafka.common.utils.Utils.murmur2 and "
               "toPositive, checked against the published UtilsTest vectors at start-up",
               "the optional C extension murmurhash2 is not installed in this sandbox: only afkak's pure-Python hash "
               "is exercised", "partition lists given to RoundRobinPartitioner are ascending, as the property states"]
REACH_MIN = {"hash_keys": {"quick": 13200, "thorough": 158400},
             "rr_histories": {"quick": 1320, "thorough": 15840},
             "rr_list_changes": {"quick": 1000, "thorough": 12000},
             "text_vs_bytes": {"quick": 1000, "thorough": 12000}}

KAFKA_VECTORS = [(b"21", -973932308), (b"foobar", -790332482), (b"a-little-bit-long-string", -985981536),
                 (b"a-little-bit-longer-string", -1486304829),
                 (b"lkjh234lh9fiuh90y23oiuhsafujhadof229phr9h19h89h8", -58897971), (b"abc", 479470107)]


def py_murmur2(data):
    """Independent transcription with explicit 32-bit wrapping (unsigned)."""
    M = 0x5BD1E995
    MASK = 0xFFFFFFFF
    n = len(data)
    h = (0x9747B28C ^ n) & MASK
    i = 0
    while n - i >= 4:
        k = int.from_bytes(data[i:i + 4], "little")
        k = (k * M) & MASK
        k ^= k >> 24
        k = (k * M) & MASK
        h = ((h * M) & MASK) ^ k
        i += 4
    rest = n - i
    if rest == 3:
        h ^= data[i + 2] << 16
    if rest >= 2:
        h ^= data[i + 1] << 8
    if rest >= 1:
        h ^= data[i]
        h = (h * M) & MASK
    h ^= h >> 13
    h = (h * M) & MASK
    h ^= h >> 15
    return h


def _signed(h):
    return h - (1 << 32) if h & 0x80000000 else h


def ref_paths():
    d = os.path.join(VERIF_DIR, "build", "ref")
    return os.path.join(d, "Murmur2Ref.class"), os.path.join(d, "murmur2_c"), d


def prepare():
    """Build the references if a fresh checkout does not have them."""
    cls, cbin, d = ref_paths()
    if not (os.path.exists(cls) and os.path.exists(cbin)):
        subprocess.run(["sh", os.path.join(VERIF_DIR, "setup.sh")], cwd=VERIF_DIR, stdout=subprocess.DEVNULL,
                       stderr=subprocess.DEVNULL, timeout=300)


def run_external(which, queries):
    """queries: list of (key bytes, n) -> list of (signed hash, index) or None if unavailable"""
    cls, cbin, d = ref_paths()
    if which == "java":
        if not os.path.exists(cls):
            return None
        cmd = ["java", "-Xmx256m", "-XX:+UseSerialGC", "-XX:TieredStopAtLevel=1", "-cp", d, "Murmur2Ref"]
    else:
        if not os.path.exists(cbin):
            return None
        cmd = [cbin]
    inp = "".join("%s %d\n" % (k.hex() or "-", n) for k, n in queries)
    try:
        p = subprocess.run(cmd, input=inp.encode("ascii"), stdout=subprocess.PIPE, stderr=subprocess.PIPE,
                           timeout=300)
    except Exception:
        return None
    if p.returncode != 0:
        return None
    lines = p.stdout.decode("ascii").split("\n")
    out = []
    for ln in lines:
        if ln:
            a, b = ln.split(" ")
            out.append((int(a), int(b)))
    if len(out) != len(queries):
        return None
    return out


def cases(tier, seed):
    out = []
    nh = {"quick": 16, "thorough": 320}[tier]
    per = {"quick": 1500, "thorough": 6000}[tier]
    for i in range(nh):
        out.append(dict(kind="hash", seed=seed * 7919 + i, n=per))
    nr = {"quick": 16, "thorough": 320}[tier]
    perr = {"quick": 150, "thorough": 400}[tier]
    for i in range(nr):
        out.append(dict(kind="rr", seed=seed * 104729 + i, n=perr))
    return out


TEXT_POOL = ["", "a", "key", "ключ", "键", "🔑", "naïve", "abé", "x" * 31, "€" * 5, "user-42", "\x7f\x80"]


def gen_key(rng, idx):
    mode = idx % 8
    if mode == 0:
        n = idx // 8 % 68
        return bytes(rng.getrandbits(8) for _ in range(n))
    if mode == 1:  # high bytes in the tail
        n = rng.randint(1, 67)
        b = bytearray(rng.getrandbits(8) for _ in range(n))
        for j in range(1, min(4, n) + 1):
            b[-j] = rng.choice((0x80, 0xFF, 0xFE, 0x81, rng.randint(0x80, 0xFF)))
        return bytes(b)
    if mode == 2:
        return bytes([0xFF]) * rng.randint(0, 40)
    if mode == 3:
        n = (65536 if rng.random() < 0.02 else rng.choice((64, 255, 256, 1000, 4096))) + rng.randint(0, 3)
        return rng.getrandbits(8 * n).to_bytes(n, "big") if n else b""
    if mode == 4:
        return "".join(rng.choice(TEXT_POOL) for _ in range(rng.randint(1, 4))).encode("utf-8")
    if mode == 5:
        return bytes(rng.choice((0, 1, 0x7F, 0x80, 0xFF)) for _ in range(rng.randint(0, 12)))
    if mode == 6:
        return ("k%d" % rng.randint(0, 10 ** 9)).encode()
    return bytes(rng.getrandbits(8) for _ in range(rng.randint(0, 67)))


def gen_parts(rng):
    style = rng.randint(0, 5)
    if style == 0:
        return [0]
    if style == 1:
        return list(range(rng.randint(1, 64)))
    if style == 2:
        return sorted(rng.sample(range(0, 500), rng.randint(1, 30)))
    if style == 3:
        return list(range(rng.choice((2, 3, 7, 16, 31, 32, 33, 100, 1000))))
    if style == 4:
        return [5, 9]
    return list(range(1, rng.randint(2, 13)))


def run_hash(spec, res):
    from afkak import partitioner as P
    rng = random.Random(spec["seed"])
    queries = []
    for i in range(spec["n"]):
        queries.append((gen_key(rng, i + spec["seed"] % 8), gen_parts(rng)))
    # reference agreement + published vectors
    vec = [(k, 7) for k, _ in KAFKA_VECTORS]
    refs = {}
    for which in ("java", "c"):
        out = run_external(which, vec + [(k, len(p)) for k, p in queries])
        if out is not None:
            refs[which] = out
    if not refs:
        res.inconclusive.append("neither the Java nor the C reference could be run; only the Python transcription "
                                "is available")
    for j, (k, want) in enumerate(KAFKA_VECTORS):
        if _signed(py_murmur2(k)) != want:
            raise AssertionError("python reference disagrees with the published vector for %r" % k)
        for which, out in refs.items():
            if out[j][0] != want:
                raise AssertionError("%s reference disagrees with the published vector for %r" % (which, k))
    res.hit("refs_" + "+".join(sorted(refs)) if refs else "refs_python_only")
    hp1 = P.HashedPartitioner("t", [0])
    hp2 = P.HashedPartitioner("other", [0, 1, 2])
    live_impl = "c-extension" if getattr(P, "_c_murmur2", None) else "pure-python"
    res.hit("impl_" + live_impl)
    first = {}
    for qi, (k, parts) in enumerate(queries):
        res.n_sub += 1
        res.sigs.add(sig(k, parts))
        n = len(parts)
        want_h = py_murmur2(k)
        for which, out in refs.items():
            h, idx = out[len(vec) + qi]
            if h != _signed(want_h) or idx != (want_h & 0x7FFFFFFF) % n:
                raise AssertionError("references disagree among themselves on %r" % (k,))
        try:
            got = P.pure_murmur2(bytearray(k))
        except Exception as e:
            res.violate("hash-raised/%s" % type(e).__name__, "pure_murmur2 raised %r" % (e,), key=k)
            continue
        res.hit("hash_keys")
        res.hit("len_mod4_%d" % (len(k) % 4))
        if (got & 0xFFFFFFFF) != want_h or got != (got & 0xFFFFFFFF):
            tail = len(k) % 4
            high = any(b >= 0x80 for b in k[len(k) - tail:]) if tail else False
            res.violate("murmur2-differs-from-java/len%%4=%d%s" % (tail, "-high-tail-byte" if high else ""),
                        "pure_murmur2 disagrees with the Java/C/Python references", key=k, afkak=got, ref=want_h)
        res.ob("hash_equals_reference")
        want_part = parts[(want_h & 0x7FFFFFFF) % n]
        forms = [("bytes", k), ("bytearray", bytearray(k))]
        try:
            forms.append(("str", k.decode("utf-8")))
            res.hit("text_vs_bytes")
        except UnicodeDecodeError:
            pass
        for hp in (hp1, hp2):
            for form, kk in forms:
                try:
                    got_p = hp.partition(kk, parts)
                except Exception as e:
                    res.violate("partition-raised/%s/%s" % (form, type(e).__name__), "partition() raised %r" % (e,),
                                key=k, parts=parts)
                    continue
                if got_p not in parts:
                    res.violate("hashed-out-of-range", "partition() returned something not in the list", key=k,
                                parts=parts, got=got_p)
                elif got_p != want_part:
                    res.violate("hashed-differs-from-java/%s" % form, "HashedPartitioner chose a different partition "
                                "than the Java client would", key=k, parts=parts[:20], n=n, got=got_p, want=want_part)
                res.ob("partition_equals_java")
        first[qi] = want_part
    # several partitioners alive at once (one per topic, each always given its own list), the same keys on each
    lists = []
    for _ in range(4):
        lp = gen_parts(rng)
        if lp:
            lists.append(lp)
    insts = [P.HashedPartitioner("topic%d" % i, list(lp)) for i, lp in enumerate(lists)]
    shared_keys = [q[0] for q in queries[:40]]
    for rnd in range(2):
        for k in shared_keys:
            want_h = py_murmur2(k)
            for inst, lp in zip(insts, lists):
                try:
                    got_p = inst.partition(k, list(lp))
                except Exception as e:
                    res.violate("partition-raised/several-instances/%s" % type(e).__name__, "partition() raised %r" % (e,),
                                key=k, parts=lp[:12])
                    continue
                want_part = lp[(want_h & 0x7FFFFFFF) % len(lp)]
                if got_p != want_part:
                    res.violate("hashed-differs-from-java/several-instances", "with several HashedPartitioner objects "
                                "alive, one chose %r for a key whose Java partition in its own list is %r" % (got_p, want_part),
                                key=k, parts=lp[:12])
                res.ob("partition_equals_java")
                res.hit("several_instances_selections")
    # history independence: replay a sample in another order on a used instance
    order = list(range(len(queries)))
    rng.shuffle(order)
    for qi in order[:200]:
        k, parts = queries[qi]
        if qi not in first:
            continue
        try:
            again = hp2.partition(k, parts)
        except Exception as e:
            res.violate("partition-raised/replay/%s" % type(e).__name__, "partition() raised %r" % (e,), key=k,
                        n=len(parts))
            continue
        if again != first[qi]:
            res.violate("hashed-depends-on-history", "same key and list gave a different partition later", key=k)
        res.ob("history_independent")
    res.sample = dict(kind="hash", references=sorted(refs) + ["python"], afkak_impl=live_impl,
                      examples=[dict(key=k, partitions=p[:8], ref_hash=_signed(py_murmur2(k)))
                                for k, p in queries[:4]])


def check_runs(res, runs, hist):
    for parts, sel in runs:
        n = len(parts)
        if any(s not in parts for s in sel):
            res.violate("rr-out-of-range", "round robin returned a partition that is not in the current list",
                        parts=parts, sel=sel[:40])
            return
        # every window of n consecutive selections contains each partition exactly once
        for i in range(0, len(sel) - n + 1):
            w = sel[i:i + n]
            if len(set(w)) != n:
                res.violate("rr-unfair-window/repeat-within-n", "a window of n selections with an unchanged list does "
                            "not contain every partition exactly once", parts=parts, window=w, at=i,
                            run_len=len(sel), history=hist[:30])
                return
        if len(sel) >= n:
            res.ob("rr_windows", len(sel) - n + 1)
        # aligned k*n windows (implied by the above, checked independently)
        k = len(sel) // n
        for j in range(k):
            w = sel[j * n:(j + 1) * n]
            if sorted(w) != sorted(parts):
                res.violate("rr-unfair-window/aligned", "aligned window is not a permutation of the list",
                            parts=parts, window=w)
                return
        if k:
            res.ob("rr_aligned_windows", k)


def run_rr(spec, res):
    from afkak import partitioner as P
    rng = random.Random(spec["seed"])
    for h in range(spec["n"]):
        res.n_sub += 1
        random_start = rng.random() < 0.5
        P.RoundRobinPartitioner.set_random_start(random_start)
        try:
            parts = gen_parts(rng)
            if len(parts) > 40:
                parts = parts[:40]
            # the caller may keep ONE list object for the topic, hand that very object to every call and update it in
            # place when the topic changes (what the partitioner remembers must not alias it), or pass a fresh list
            # every time
            shared = list(parts) if rng.random() < 0.4 else None
            rr = P.RoundRobinPartitioner("t", shared if shared is not None else list(parts))
            runs = []
            cur = (list(parts), [])
            hist = [("init", list(parts), random_start)]
            nsteps = rng.randint(1, 120)
            changes = 0
            for s in range(nsteps):
                if rng.random() < 0.08:
                    newp = gen_parts(rng)[:40]
                    if rng.random() < 0.3:  # grow / shrink the same list
                        newp = sorted(set(parts + [max(parts) + 1])) if rng.random() < 0.5 or len(parts) < 2 \
                            else parts[:-1]
                    if newp != parts:
                        parts = newp
                        if shared is not None:
                            shared[:] = parts
                        runs.append(cur)
                        cur = (list(parts), [])
                        changes += 1
                        hist.append(("change", list(parts)))
                try:
                    got = rr.partition(rng.choice((None, b"k", b"")), shared if shared is not None else list(parts))
                except Exception as e:
                    res.violate("rr-raised/%s" % type(e).__name__, "RoundRobinPartitioner.partition() raised %r after the "
                                "list changed to %r" % (e, parts[:12]), history=hist[-4:])
                    break
                cur[1].append(got)
            runs.append(cur)
            if shared is not None:
                res.hit("rr_histories_one_list_object")
                if shared != parts:
                    res.violate("rr-mutated-callers-list", "the caller's partition list was modified by the partitioner",
                                want=parts[:12], got=shared[:12])
            res.hit("rr_histories")
            res.hit("rr_list_changes", changes)
            if random_start:
                res.hit("rr_random_start")
            if any(len(sel) >= 2 * len(p) for p, sel in runs):
                res.sigs.add(sig([(p, len(s)) for p, s in runs], random_start))
            check_runs(res, runs, hist)
            if res.sample is None:
                res.sample = dict(kind="round_robin", random_start=random_start,
                                  runs=[dict(partitions=p, selections=s[:30]) for p, s in runs[:3]])
        finally:
            P.RoundRobinPartitioner.set_random_start(False)


def run(spec):
    res = Result()
    if spec["kind"] == "hash":
        run_hash(spec, res)
    else:
        run_rr(spec, res)
    return res

"""C05 -- responses and message sets decode to exactly what was encoded.

(a) every response decoder fed by the independent encoder of refproto;
(b) message sets: refproto-encode -> afkak-decode equality (absolute offsets for
    wrapped messages), afkak-encode -> afkak-decode identity, afkak-encode ->
    refproto-decode agreement.
"""
import random

from ..core import Result, sig
from .. import gen as G
from .. import refproto as R

ID = "C05"
LEVEL = "exploration"
RULE = ("each evaluation is one generated well-formed response (or message set) encoded by the independent "
        "reference encoder and decoded by afkak, compared field by field; non-trivial when the value has at least "
        "one entry / message; distinct = distinct (decoder, encoded bytes)")
ASSUMPTIONS = ["topic and host names are ASCII (Kafka's legal topic alphabet); member ids / group protocol names may "
               "be any UTF-8 text", "python-snappy is not installed: 'available compression' is {none, gzip}",
               "nested wrappers (depth 2) are generated in magic 0 only, where every inner offset is absolute and the "
               "expected result is unambiguous",
               "only Produce v0/v2 and Fetch v0/v2 response layouts are exercised (what the property names)"]
REACH_MIN = {"responses": {"quick": 3520, "thorough": 42240}, "message_sets": {"quick": 1500, "thorough": 18000},
             "magic1_wrapped": {"quick": 100, "thorough": 1200}, "roundtrip": {"quick": 800, "thorough": 9600}}

BATCH = 100


def cases(tier, seed):
    n = {"quick": 64, "thorough": 1280}[tier]
    return [dict(seed=seed * 65537 + i, n=BATCH) for i in range(n)]


# --------------------------------------------------------------------------
# (a) responses


def tup(x):
    if isinstance(x, (list, tuple)):
        return tuple(tup(i) for i in x)
    return x


def gen_produce(rng, K):
    v = rng.choice((0, 2))
    topics = []
    exp = []
    for t in G.g_topics(rng):
        parts = []
        for p in G.g_partitions(rng):
            e, o, lat = G.g_error(rng), G.g_int64(rng), G.g_int64(rng)
            parts.append((p, e, o, lat))
            exp.append((t, p, e, o))
        topics.append((t, parts))
    corr = G.g_corr(rng)
    data = R.resp_produce(corr, topics, version=v, throttle_ms=G.g_int32(rng))
    got = [tuple(r) for r in K.decode_produce_response(data, api_version=v)]
    return "produce_v%d" % v, data, exp, got


G_PARTIAL = [0]


def gen_fetch(rng, K):
    v = rng.choice((0, 2))
    topics = []
    exp = []
    for t in G.g_topics(rng, 0, 3):
        parts = []
        for p in G.g_partitions(rng, 0, 3):
            e, hw = G.g_error(rng), G.g_int64(rng)
            msgs, rs, _ = gen_ref_set(rng, allow_m1_wrapped=False, small=True)
            if msgs and rng.random() < 0.3:
                # the broker cut this partition's data at max_bytes: a partial message trails the complete ones
                # (what follows in the response belongs to the next partition)
                extra = R.encode_message_set([(msgs[-1][0] + 1, R.encode_message(b"cut", b"x" * rng.randint(0, 40),
                                                                                rng.choice((0, 1)), 0, None))])
                rs = rs + extra[:rng.randint(1, len(extra) - 1)]
                G_PARTIAL[0] += 1
            parts.append((p, e, hw, rs))
            exp.append((t, p, e, hw, msgs))
        topics.append((t, parts))
    data = R.resp_fetch(G.g_corr(rng), topics, version=v, throttle_ms=G.g_int32(rng))
    got = []
    for r in K.decode_fetch_response(data, api_version=v):
        got.append((r.topic, r.partition, r.error, r.highwaterMark, [norm_om(om) for om in r.messages]))
    return "fetch_v%d" % v, data, exp, got


def gen_list_offsets(rng, K):
    topics, exp = [], []
    for t in G.g_topics(rng):
        parts = []
        for p in G.g_partitions(rng):
            e = G.g_error(rng)
            offs = [G.g_int64(rng) for _ in range(rng.choice((0, 1, 1, 2, 5)))]
            parts.append((p, e, offs))
            exp.append((t, p, e, tuple(offs)))
        topics.append((t, parts))
    data = R.resp_list_offsets(G.g_corr(rng), topics)
    got = [(r.topic, r.partition, r.error, tuple(r.offsets)) for r in K.decode_offset_response(data)]
    return "list_offsets", data, exp, got


def gen_metadata(rng, K):
    nb = rng.choice((0, 1, 2, 3, 5))
    ids = rng.sample([0, 1, 2, 3, 1001, 2 ** 31 - 1, 7], nb)
    brokers = [(i, G.g_host(rng), rng.choice((9092, 0, 1, 65535, G.g_nonneg32(rng)))) for i in ids]
    topics = []
    exp_t = {}
    for t in G.g_topics(rng):
        te = G.g_error(rng)
        parts = []
        ep = {}
        for p in G.g_partitions(rng):
            pe = G.g_error(rng)
            leader = rng.choice(ids + [-1]) if ids else -1
            reps = [rng.choice(ids + [99]) for _ in range(rng.randint(0, 3))] if ids else []
            isr = reps[:rng.randint(0, len(reps))]
            parts.append((pe, p, leader, reps, isr))
            ep[p] = (t, p, pe, leader, tuple(reps), tuple(isr))
        topics.append((te, t, parts))
        exp_t[t] = (t, te, ep)
    data = R.resp_metadata(G.g_corr(rng), brokers, topics)
    b, tm = K.decode_metadata_response(data)
    got_b = {k: tuple(v) for k, v in b.items()}
    got_t = {}
    for name, m in tm.items():
        got_t[name] = (m.topic, m.topic_error_code,
                       {p: (pm.topic, pm.partition, pm.partition_error_code, pm.leader, tuple(pm.replicas),
                            tuple(pm.isr)) for p, pm in m.partition_metadata.items()})
    exp = ({i: (i, h, p) for i, h, p in brokers}, exp_t)
    return "metadata", data, exp, (got_b, got_t)


def gen_offset_commit(rng, K):
    topics, exp = [], []
    for t in G.g_topics(rng):
        parts = []
        for p in G.g_partitions(rng):
            e = G.g_error(rng)
            parts.append((p, e))
            exp.append((t, p, e))
        topics.append((t, parts))
    data = R.resp_offset_commit(G.g_corr(rng), topics)
    return "offset_commit", data, exp, [tuple(r) for r in K.decode_offset_commit_response(data)]


def gen_offset_fetch(rng, K):
    topics, exp = [], []
    for t in G.g_topics(rng):
        parts = []
        for p in G.g_partitions(rng):
            o, md, e = G.g_int64(rng), rng.choice((None, b"", b"meta", "мета".encode())), G.g_error(rng)
            parts.append((p, o, md, e))
            exp.append((t, p, o, md, e))
        topics.append((t, parts))
    data = R.resp_offset_fetch(G.g_corr(rng), topics)
    return "offset_fetch", data, exp, [tuple(r) for r in K.decode_offset_fetch_response(data)]


def gen_find_coordinator(rng, K):
    e, n, h, p = G.g_error(rng), G.g_int32(rng), G.g_host(rng), G.g_int32(rng)
    data = R.resp_find_coordinator(G.g_corr(rng), e, n, h, p)
    return "find_coordinator", data, (e, n, h, p), tuple(K.decode_consumermetadata_response(data))


def gen_join_group(rng, K):
    e, gen_id = G.g_error(rng), G.g_int32(rng)
    proto, leader, member = G.g_text(rng), G.g_text(rng), G.g_text(rng)
    members = [(G.g_text(rng), rng.choice((b"", R.encode_subscription(["a", "b"]), G.g_bytes(rng, nullable=False))))
               for _ in range(rng.choice((0, 0, 1, 2, 4)))]
    data = R.resp_join_group(G.g_corr(rng), e, gen_id, proto, leader, member, members)
    r = K.decode_join_group_response(data)
    got = (r.error, r.generation_id, r.group_protocol, r.leader_id, r.member_id,
           [(m.member_id, m.member_metadata) for m in r.members])
    return "join_group", data, (e, gen_id, proto, leader, member, members), got


def gen_sync_group(rng, K):
    e = G.g_error(rng)
    a = rng.choice((b"", R.encode_assignment([("t", [0, 1])]), G.g_bytes(rng, nullable=False)))
    data = R.resp_sync_group(G.g_corr(rng), e, a)
    r = K.decode_sync_group_response(data)
    return "sync_group", data, (e, a), (r.error, r.member_assignment)


def gen_heartbeat(rng, K):
    e = G.g_error(rng)
    data = R.resp_heartbeat(G.g_corr(rng), e)
    return "heartbeat", data, (e,), (K.decode_heartbeat_response(data).error,)


def gen_leave_group(rng, K):
    e = G.g_error(rng)
    data = R.resp_leave_group(G.g_corr(rng), e)
    return "leave_group", data, (e,), (K.decode_leave_group_response(data).error,)


def gen_api_versions(rng, K):
    e = rng.choice((0, 0, 0, G.g_error(rng)))
    keys = list(range(0, 40))
    rng.shuffle(keys)
    vers = [(k, rng.choice((0, 0, 1)), rng.choice((0, 1, 2, 3, 11, 32767))) for k in keys[:rng.choice((0, 1, 3, 20, 40))]]
    data = R.resp_api_versions(G.g_corr(rng), e, vers)
    r = K.decode_api_versions_response(data)
    return "api_versions", data, (e, vers), (r.error_code, [tuple(v) for v in r.api_versions])


def gen_subscription(rng, K):
    topics = G.g_topics(rng)
    ud = rng.choice((b"", None, b"user"))
    data = R.encode_subscription(topics, 0, ud)
    r = K.decode_join_group_protocol_metadata(data)
    return "subscription", data, (0, topics, ud), (r.version, list(r.subscriptions), r.user_data)


def gen_assignment(rng, K):
    tps = [(t, G.g_partitions(rng)) for t in G.g_topics(rng)]
    ud = rng.choice((b"", None, b"user"))
    data = R.encode_assignment(tps, 0, ud)
    r = K.decode_sync_group_member_assignment(data)
    return "assignment", data, (0, {t: tuple(p) for t, p in tps}, ud), \
        (r.version, {t: tuple(p) for t, p in r.assignments.items()}, r.user_data)


RESPONSE_GENS = [gen_produce, gen_fetch, gen_list_offsets, gen_metadata, gen_offset_commit, gen_offset_fetch,
                 gen_find_coordinator, gen_join_group, gen_sync_group, gen_heartbeat, gen_leave_group,
                 gen_api_versions, gen_subscription, gen_assignment]


def first_diff(a, b, path=""):
    if type(a) in (list, tuple) and type(b) in (list, tuple):
        if len(a) != len(b):
            return "%s: length %d != %d" % (path, len(a), len(b))
        for i, (x, y) in enumerate(zip(a, b)):
            d = first_diff(x, y, "%s[%d]" % (path, i))
            if d:
                return d
        return None
    if isinstance(a, dict) and isinstance(b, dict):
        if set(a) != set(b):
            return "%s: keys %r != %r" % (path, sorted(a, key=repr)[:6], sorted(b, key=repr)[:6])
        for k in a:
            d = first_diff(a[k], b[k], "%s[%r]" % (path, k))
            if d:
                return d
        return None
    if a != b or (type(a) is not type(b) and not (isinstance(a, (int, str, bytes)) and isinstance(b, type(a)))):
        return "%s: expected %r got %r" % (path, a if not isinstance(a, bytes) else a[:40],
                                           b if not isinstance(b, bytes) else b[:40])
    return None


# --------------------------------------------------------------------------
# (b) message sets


def norm_om(om):
    m = om.message
    return (om.offset, m.magic, m.attributes, m.key, m.value, m.timestamp)


def gen_logical(rng, magic, n, small=False):
    out = []
    for _ in range(n):
        ts = None
        attrs = 0
        if magic == 1:
            ts = rng.choice((-1, 0, 1, 1234, 2 ** 41, 2 ** 63 - 1, -2 ** 63)) if rng.random() < 0.5 \
                else rng.randint(0, 2 ** 42)
            if rng.random() < 0.1:
                attrs = 0x08  # log-append-time flag on a plain message: must be preserved
        out.append((magic, attrs, G.g_bytes(rng), G.g_bytes(rng, big=not small), ts))
    return out


def gen_ref_set(rng, allow_m1_wrapped=True, small=False):
    """Build a message set with the reference encoder.  Returns
    (expected [(abs offset, magic, attrs, key, value, ts)], bytes, tags)."""
    entries = []
    expected = []
    tags = set()
    off = rng.choice((0, 0, 5, 100, 2 ** 31, 2 ** 40)) if rng.random() < 0.5 else rng.randint(0, 2 ** 45)
    for _ in range(rng.choice((0, 1, 1, 2, 3, 4)) if not small else rng.choice((0, 1, 2))):
        magic = rng.choice((0, 1))
        kind = rng.choice(("plain", "plain", "gzip", "nested", "gzip", "empty_wrapper"))
        if small and kind == "nested":
            kind = "gzip"
        if kind == "empty_wrapper":
            # a wrapper whose compressed payload is an empty message set (everything in it was compacted away): it
            # contributes no message and is not a truncation
            magic_w = rng.choice((0, 1))
            depth = rng.choice((1, 1, 2))
            w_ = R.encode_wrapper([], off, magic=magic_w, timestamp=(0 if magic_w == 1 else None))
            if depth == 2:
                w_ = R.encode_wrapper([w_], off, magic=0)
            entries.append(w_)
            tags.add("wrapper_around_nothing")
            off += 1
            continue
        if kind == "plain":
            (m, a, k, v, ts), = gen_logical(rng, magic, 1, small)
            entries.append((off, R.encode_message(k, v, m, a, ts)))
            expected.append((off, m, a, k, v, ts))
            tags.add("plain_m%d" % magic)
            off += rng.choice((1, 1, 1, 3, 1000))
        elif kind == "gzip":
            if magic == 1 and not allow_m1_wrapped:
                magic = 0
            n = rng.randint(1, 5)
            msgs = gen_logical(rng, magic, n, small)
            msgs = [(m, 0, k, v, ts) for (m, a, k, v, ts) in msgs]
            # offsets of the inner messages, possibly with compaction gaps
            rel = [0]
            for _i in range(n - 1):
                rel.append(rel[-1] + rng.choice((1, 1, 1, 2, 5)))
            abs_offs = [off + r for r in rel]
            if magic == 0:
                inner = [(o, R.encode_message(k, v, m, a, ts)) for o, (m, a, k, v, ts) in zip(abs_offs, msgs)]
                tags.add("gzip_m0")
            else:
                inner = [(r, R.encode_message(k, v, m, a, ts)) for r, (m, a, k, v, ts) in zip(rel, msgs)]
                tags.add("gzip_m1")
                if len(rel) > 1 and rel[-1] != len(rel) - 1:
                    tags.add("gzip_m1_gaps")
            nmem = rng.choice((1, 1, 1, 2, 3))
            if nmem > 1:
                tags.add("gzip_multi_member")
            # a format-1 wrapper written on a LogAppendTime topic also carries the timestamp-type bit (0x08)
            extra = 0x08 if (magic == 1 and rng.random() < 0.3) else 0
            if extra:
                tags.add("gzip_m1_log_append_time")
            entries.append(R.encode_wrapper(inner, abs_offs[-1], magic=magic, extra_attributes=extra,
                                            timestamp=(msgs[-1][4] if magic == 1 else None), members=nmem,
                                            split_at=(sorted(rng.sample(range(1, 40), nmem - 1)) if nmem > 1 and
                                                      rng.random() < 0.5 else None)))
            for o, (m, a, k, v, ts) in zip(abs_offs, msgs):
                expected.append((o, m, a, k, v, ts))
            off = abs_offs[-1] + 1
            if magic == 1 and rng.random() < 0.3:
                # the very same wrapper bytes once more, further along the log (a producer's retry appended the batch
                # twice): the inner offsets are relative, so the copy's messages sit at other absolute offsets
                woff, wbytes = entries[-1]
                off2 = woff + rel[-1] + rng.choice((1, 1, 2, 50))
                entries.append((off2, wbytes))
                for r, (m, a, k, v, ts) in zip(rel, msgs):
                    expected.append((off2 - rel[-1] + r, m, a, k, v, ts))
                tags.add("gzip_m1_repeated_batch")
                off = off2 + 1
        else:  # nested: wrapper(wrapper(messages)) in magic 0, absolute offsets everywhere
            n = rng.randint(1, 3)
            msgs = [(m, 0, k, v, ts) for (m, a, k, v, ts) in gen_logical(rng, 0, n, True)]
            abs_offs = [off + i for i in range(n)]
            inner = [(o, R.encode_message(k, v, 0, 0, None)) for o, (m, a, k, v, ts) in zip(abs_offs, msgs)]
            mid = R.encode_wrapper(inner, abs_offs[-1], magic=0)
            entries.append(R.encode_wrapper([mid], abs_offs[-1], magic=0))
            for o, (m, a, k, v, ts) in zip(abs_offs, msgs):
                expected.append((o, m, a, k, v, ts))
            tags.add("nested_m0")
            off = abs_offs[-1] + 1
    return expected, R.encode_message_set(entries), tags


def classify_set_diff(exp, got):
    """Mechanism key for a message-set disagreement."""
    if len(exp) == len(got):
        ts_tuple = any(isinstance(g[5], tuple) for g in got)
        same_but_ts = all(e[:5] == g[:5] for e, g in zip(exp, got))
        if ts_tuple and same_but_ts:
            return "message-set/magic1-timestamp-is-a-tuple"
        same_but_off = all(e[1:5] == g[1:5] for e, g in zip(exp, got))
        if same_but_off and any(e[0] != g[0] for e, g in zip(exp, got)):
            rel = all((e[0] == g[0]) or e[1] == 1 for e, g in zip(exp, got))
            return "message-set/magic1-wrapped-offsets-relative" if rel else "message-set/wrong-offsets"
        return "message-set/wrong-content"
    return "message-set/wrong-count"


def run(spec):
    from afkak.kafkacodec import KafkaCodec as K
    from afkak import kafkacodec as KC
    from afkak.common import Message, ProduceRequest, SendRequest
    from afkak import CODEC_GZIP, CODEC_NONE
    res = Result()
    rng = random.Random(spec["seed"])
    for it in range(spec["n"]):
        # ---- (a)
        g = RESPONSE_GENS[(it + spec["seed"]) % len(RESPONSE_GENS)]
        state = rng.getstate()
        name = g.__name__[4:]
        try:
            name, data, exp, got = g(rng, K)
        except Exception as e:
            rng.setstate(state)
            res.violate("response-decoder-raised/%s/%s" % (name, type(e).__name__),
                        "decoder raised %r on a well-formed response" % (e,), generator=name, seed=spec["seed"], it=it)
            res.n_sub += 1
            res.hit("responses")
            continue
        res.n_sub += 1
        res.hit("responses")
        res.hit("dec_" + name)
        if G_PARTIAL[0]:
            res.hit("fetch_partitions_with_a_partial_trailing_message", G_PARTIAL[0])
            G_PARTIAL[0] = 0
        if exp not in ((), [], ({}, {})):
            res.sigs.add(sig(name, data))
        d = first_diff(tup(exp) if not isinstance(exp, tuple) or name != "metadata" else exp,
                       tup(got) if not isinstance(got, tuple) or name != "metadata" else got)
        if d:
            key = "response/%s" % name
            if name == "api_versions" and exp[0] != 0 and got[1] == [tuple(v) for v in exp[1]]:
                key = "response/api_versions/nonzero-error-code-misread"
            elif name.startswith("fetch"):
                key = "response/%s/%s" % (name, "messages" if "][4]" in d else "fields")
            res.violate(key, "decoded value differs from what the reference encoded: %s" % d, data=data[:200],
                        expected=exp, got=got)
        res.ob("response_" + name)
        if res.sample is None and exp:
            res.sample = dict(decoder=name, encoded_hex=data[:120].hex(), expected=exp)

        # ---- (b1) reference-encoded set -> afkak decode
        exp, data, tags = gen_ref_set(rng)
        res.n_sub += 1
        res.hit("message_sets")
        for t in tags:
            res.hit(t)
        if "gzip_m1" in tags:
            res.hit("magic1_wrapped")
        if exp:
            res.sigs.add(sig("set", data))
        try:
            got = [norm_om(om) for om in K._decode_message_set_iter(data)]
        except Exception as e:
            res.violate("message-set/decoder-raised/%s" % type(e).__name__, "message-set decoder raised %r on a "
                        "well-formed set" % (e,), data=data[:300], expected=exp)
            got = None
        if got is not None and got != exp:
            res.violate(classify_set_diff(exp, got), "decoded (offset, message) sequence differs from the encoded "
                        "one: %s" % first_diff(exp, got), tags=sorted(tags), expected=exp[:6], got=got[:6])
        res.ob("set_ref_to_afkak")

        # ---- (b2,b3) afkak encode -> afkak decode identity, and -> reference decode
        magic = rng.choice((0, 1))
        codec = rng.choice((CODEC_NONE, CODEC_GZIP))
        msgs = [Message(m, a, k, v, ts) if m == 1 else Message(m, a, k, v)
                for (m, a, k, v, ts) in gen_logical(rng, magic, rng.randint(1, 5), True)]
        msgs = [Message(m.magic, 0, m.key, m.value, m.timestamp) if m.magic == 1 else Message(0, 0, m.key, m.value)
                for m in msgs]
        base = rng.choice((None, 0, 7, 2 ** 40))
        res.n_sub += 1
        res.hit("roundtrip")
        try:
            if codec == CODEC_NONE:
                top = msgs
            else:
                top = [KC.create_gzip_message(msgs, magic)]
            enc = K._encode_message_set(top, base, magic=magic)
            dec = [(om.offset, om.message) for om in K._decode_message_set_iter(enc)]
        except Exception as e:
            res.violate("roundtrip/raised/%s" % type(e).__name__, "encode/decode raised %r" % (e,), msgs=msgs)
            continue
        res.sigs.add(sig("rt", enc if codec == CODEC_NONE else (magic, [tuple(m) for m in msgs], base)))
        back = [m for _, m in dec]
        if back != msgs:
            ts_tuple = any(isinstance(m.timestamp, tuple) for m in back)
            res.violate("roundtrip/not-identity" + ("/magic1-timestamp-is-a-tuple" if ts_tuple else ""),
                        "encoding then decoding is not the identity on messages", magic=magic, codec=codec,
                        sent=[tuple(m) for m in msgs][:4], got=[tuple(m) for m in back][:4])
        res.ob("roundtrip_identity")
        if codec == CODEC_NONE:
            want_offs = [0] * len(msgs) if base is None else [base + i for i in range(len(msgs))]
            if [o for o, _ in dec] != want_offs:
                res.violate("roundtrip/offsets", "offsets written by _encode_message_set are not read back",
                            want=want_offs, got=[o for o, _ in dec])
        try:
            ref = R.flatten_messages(R.parse_message_set(enc))
        except R.ParseError as e:
            res.violate("afkak-encoded-set-rejected-by-reference", "reference parser rejects afkak's message set: %s"
                        % e, enc=enc[:200])
            continue
        if [(m["magic"], m["key"], m["value"], m["timestamp"]) for m in ref] != \
                [(m.magic, m.key, m.value, m.timestamp) for m in msgs]:
            res.violate("afkak-encoded-set/reference-reads-different-messages", "reference decoder reads different "
                        "messages from afkak's encoding", ref=ref[:4], sent=[tuple(m) for m in msgs][:4])
        res.ob("set_afkak_to_ref")
    return res

"""C14 -- consumer retries, offset-reset policy and buffer growth follow the contract."""
import itertools
import random

from twisted.python.failure import Failure

from ..core import Result, sig
from ..engines import cons
from . import c02

ID = "C14"
LEVEL = "fault_enumeration"
RULE = ("each evaluation is one scenario on a zero-latency network (wire times equal timer times): a failure/success "
        "word over {retriable error code, silence until the client timeout, OffsetOutOfRange, success} applied to the "
        "consumer's successive fetch (or offset-lookup) requests, for a grid of (initial delay, maximum delay, attempt "
        "limit, reset policy) settings -- all words up to length 7 in thorough, sampled in quick -- or a buffer-growth "
        "scenario with a record of drawn size relative to the initial buffer, 1 MiB and the configured maximum. "
        "distinct = distinct (word, settings) / (sizes); non-trivial = at least one failure or one oversized record")
ASSUMPTIONS = ["'failed attempt' = a request answered with a retriable error code or not answered within the client "
               "timeout; the delay is measured from the moment the failure is known (reply delivery or timeout) to "
               "the next request on the wire", "the growth rule is accepted in either reading of 'up to 1 MiB' "
               "(factor 16 required while 16x stays <= 1 MiB, factor 2 required once the buffer exceeds 1 MiB)",
               "with an attempt limit the start Deferred may fail earlier than the limit ('no more than')",
               "unlimited retrying is restated as: still retrying after 40 consecutive failures"]
REACH_MIN = {"retry_gaps_checked": {"quick": 500, "thorough": 14904},
             "limit_failures": {"quick": 40, "thorough": 1192},
             "reset_policy_cases": {"quick": 60, "thorough": 1788},
             "growth_steps": {"quick": 80, "thorough": 2384},
             "too_small_failures": {"quick": 8, "thorough": 200},
             "unlimited_retry_runs": {"quick": 2, "thorough": 40}}

CODES = (3, 5, 6, 7, 9, 13, 19)
SETTINGS = [(0.1, 30.0), (0.25, 0.5), (1.0, 2.0), (0.1, 0.1)]


def cases(tier, seed):
    out = []
    rng = random.Random(seed * 7 + 14)
    words = []
    for n in range(1, 8):
        words.extend("".join(w) for w in itertools.product("RTOS", repeat=n))
    if tier == "quick":
        chosen = rng.sample(words, 330) + ["R", "T", "O", "RRRRRRR", "TTT", "RSR", "RRSRR", "OS", "RO", "OO"]
    else:
        chosen = words  # 21844 words
    for i, wd in enumerate(chosen):
        st = SETTINGS[(i + seed) % len(SETTINGS)] if tier == "quick" else SETTINGS[i % len(SETTINGS)]
        out.append(dict(kind="word", word=wd, init=st[0], max=st[1], limit=rng.choice((0, 0, 2, 3, 5)),
                        reset=rng.choice((None, "earliest", "latest")), phase=rng.choice(("fetch", "fetch", "offset")),
                        seed=seed * 1000003 + 1400000 + i))
    k = len(out)
    for lim in (1, 2, 3, 5):
        for base in ("R", "T", "RT", "TR", "SR", "OR"):
            wd = (base * 7)[:7]
            for ph in ("fetch", "offset"):
                out.append(dict(kind="word", word=wd, init=0.1, max=rng.choice((0.1, 0.5, 30.0)), limit=lim,
                                reset=rng.choice(("earliest", "latest")), phase=ph, seed=seed * 1000003 + 1430000 + k))
                k += 1
    ng = {"quick": 110, "thorough": 3000}[tier]
    for i in range(ng):
        out.append(dict(kind="growth", seed=seed * 1000003 + 1450000 + i))
    nu = {"quick": 4, "thorough": 48}[tier]
    for i in range(nu):
        out.append(dict(kind="unlimited", seed=seed * 1000003 + 1470000 + i))
    return out


def base_scenario(seed, cfg_over, start, log=None, faults=None, horizon=8.0):
    sc = cons.gen_scenario(seed, "clean")
    sc["profile"] = "retry"
    sc["latency"] = 0.0
    sc["brokers"] = [1]
    sc["leader"] = 1
    sc["log"] = log or [dict(offsets=[100 + i], sizes=[20], magic=0, codec=0) for i in range(12)]
    sc["stored"] = None
    sc["appends"] = []
    sc["events"] = []
    sc["actions"] = []
    sc["faults"] = faults or []
    sc["procs"] = [["sync"]]
    sc["start"] = start
    sc["horizon"] = horizon
    sc["cfg"].update(dict(discovery=False, group=False, commit_every_n=None, commit_every_ms=None, fetch_wait_ms=50,
                          fetch_min_bytes=1, timeout=1.0, buffer_size=4096, max_buffer_size=None))
    sc["cfg"].update(cfg_over)
    return sc


def install_word(cluster, api, acts):
    """The i-th request of `api` the cluster receives gets acts[i] (None = answer normally)."""
    from ..simkafka import OK, Action
    seen = [0]

    def decide(ev):
        if ev["api"] != api:
            return OK
        i = seen[0]
        seen[0] += 1
        if i < len(acts) and acts[i] is not None:
            return Action(**acts[i])
        return OK
    cluster.faults.decide = decide


def request_times(tr, apis):
    """Consumer requests in the order the broker received them: (time, api, event)."""
    return [(e["t"], e["api"], e) for e in tr.cluster.history if "req" in e and e["api"] in apis]


def run_word(spec, res):
    word = spec["word"]
    T = 1.0
    phase = spec["phase"]
    api = "Fetch" if phase == "fetch" else "ListOffsets"
    rng = random.Random(spec["seed"])
    acts = []
    for ch in word:
        if ch == "R" or (ch == "O" and phase != "fetch"):
            acts.append(dict(kind="error", code=rng.choice(CODES)))
        elif ch == "T":
            acts.append(dict(kind="silent", apply=False))
        elif ch == "O":
            acts.append(dict(kind="error", code=1))
        else:
            acts.append(None)
    start = ["num", 112 if spec["seed"] % 3 == 0 else 100] if phase == "fetch" else ["earliest"]
    budget = sum({"R": spec["max"] + 0.1, "T": T + spec["max"] + 0.1, "O": spec["max"] + 0.2, "S": 0.2}[c] for c in word)
    sc = base_scenario(spec["seed"], dict(retry_init=spec["init"], retry_max=spec["max"], max_attempts=spec["limit"],
                                          reset=spec["reset"]), start, horizon=budget + 3.0)
    w = cons.build_world(sc)
    install_word(w.cluster, api, acts)
    tr = cons.run_scenario(sc, world=w)
    if tr.capped and cons.report_spin(res, tr):
        return
    if tr.capped:
        res.inconclusive.append("scenario aborted: %s" % getattr(tr, "cap_reason", "?"))
        return
    res.n_sub += 1
    reqs = request_times(tr, ("Fetch", "ListOffsets"))
    start_rec = tr.starts[0]
    failed_start = start_rec["fires"] and not start_rec["fires"][0][1]
    fail_t = start_rec["fires"][0][0] if failed_start else None
    # walk the requests; classify each outcome as the consumer saw it
    consec = 0
    prev_fail_known = None
    prev_gap = None
    ratio = None
    init, mx = spec["init"], spec["max"]
    saturated_seen = False
    n_fail_total = 0
    oor_pending = None
    for i, (t, a, e) in enumerate(reqs):
        # gap check against the previous failure
        if prev_fail_known is not None:
            gap = t - prev_fail_known
            res.hit("retry_gaps_checked")
            if consec == 1:
                if abs(gap - init) > 1e-6:
                    res.violate("delay/first-retry-not-the-initial-delay", "first retry after a success came %.6fs "
                                "after the failure, initial delay is %.6fs" % (gap, init), word=word)
            else:
                want_cap = abs(gap - mx) < 1e-6
                grew = prev_gap is not None and gap > prev_gap + 1e-9
                if gap > mx + 1e-6:
                    res.violate("delay/exceeds-maximum", "retry delay %.6fs exceeds the maximum %.6fs" % (gap, mx),
                                word=word)
                elif not want_cap:
                    if not grew:
                        res.violate("delay/not-growing", "consecutive failures but the delay did not grow: %.6f "
                                    "then %.6f (max %.6f)" % (prev_gap, gap, mx), word=word)
                    else:
                        r_ = gap / prev_gap
                        if ratio is None:
                            ratio = r_
                        elif abs(r_ - ratio) > 1e-5:
                            res.violate("delay/not-geometric", "delays grow by %.6f then by %.6f" % (ratio, r_),
                                        word=word)
                elif prev_gap is not None and prev_gap > gap + 1e-9:
                    res.violate("delay/shrinks-while-failing", "delay shrank from %.6f to %.6f" % (prev_gap, gap))
            res.ob("retry_delay")
            prev_gap = gap
        # outcome of this request
        if e["replied"] is None:
            break  # still being served (long poll) when the observation ended
        rs = e["result"][0] if e.get("result") else None
        if e["replied"] == "sent" and rs is not None and rs["error"] == 0:
            consec = 0
            prev_fail_known = None
            prev_gap = None
            if oor_pending is not None and a == "ListOffsets":
                oor_pending = ("resolved", rs["offsets"][0] if rs["offsets"] else None)
            elif isinstance(oor_pending, tuple) and a == "Fetch":
                off = e["req"]["topics"][0]["partitions"][0]["offset"]
                if oor_pending[1] is not None and off != oor_pending[1]:
                    res.violate("reset/fetch-does-not-resume-at-the-answer", "after the offset reset the consumer "
                                "fetched from %d, ListOffsets had answered %d" % (off, oor_pending[1]))
                oor_pending = None
                res.ob("reset_resumes_at_answer")
            continue
        if e["replied"] == "sent" and rs is not None and rs["error"] == 1 and a == "Fetch":
            # OffsetOutOfRange: the policy decides
            res.hit("reset_policy_cases")
            nxt = reqs[i + 1] if i + 1 < len(reqs) else None
            if spec["reset"] is None:
                if not failed_start or start_rec["fires"][0][2].type.__name__ != "OffsetOutOfRangeError":
                    res.violate("reset/none-policy-did-not-fail-with-OffsetOutOfRange", "no reset policy, yet the "
                                "start Deferred %s" % ("failed with %s" % start_rec["fires"][0][2].type.__name__
                                                       if failed_start else "did not fail"), word=word)
                later_fetch = [r for r in reqs[i + 1:] if r[1] == "Fetch"]
                if later_fetch:
                    res.violate("reset/none-policy-kept-fetching", "no reset policy, yet %d more fetch request(s) "
                                "were sent after OffsetOutOfRange" % len(later_fetch), word=word)
                res.ob("reset_none_fails")
                break
            want_ts = -2 if spec["reset"] == "earliest" else -1
            if nxt is None:
                if not failed_start:
                    res.violate("reset/no-lookup-after-out-of-range", "after OffsetOutOfRange no ListOffsets "
                                "request followed", word=word)
            elif nxt[1] != "ListOffsets" or nxt[2]["req"]["topics"][0]["partitions"][0]["timestamp"] != want_ts:
                res.violate("reset/wrong-lookup-after-out-of-range", "policy %s, but the request after "
                            "OffsetOutOfRange was %s(%s)" % (spec["reset"], nxt[1], nxt[2]["req"]["topics"][0][
                                "partitions"][0].get("timestamp", nxt[2]["req"]["topics"][0]["partitions"][0].get(
                                    "offset"))), word=word)
            res.ob("reset_policy_lookup")
            oor_pending = "awaiting"
            # the consumer treats it as a failed attempt for delay purposes too
            consec += 1
            n_fail_total += 1
            prev_fail_known = e["reply_t"]
            if consec == 1:
                prev_gap = None
                ratio = ratio
            # ... and for the attempt limit: an out-of-range answer is a failed attempt like any other
            if spec["limit"] and consec >= spec["limit"]:
                res.hit("limit_failures")
                if not failed_start or fail_t > prev_fail_known + 1e-6:
                    res.violate("limit/start-deferred-not-failed-after-n-failures/out-of-range-last", "%d consecutive "
                                "failed attempts, the last one answered OffsetOutOfRange (limit %d), but the start "
                                "Deferred %s" % (consec, spec["limit"], "failed only later" if failed_start else
                                                 "has not failed"), word=word)
                res.ob("attempt_limit")
                break
            continue
        # a failure: error code or silence
        consec += 1
        n_fail_total += 1
        if e["replied"] == "sent":
            prev_fail_known = e["reply_t"]
        else:
            prev_fail_known = e["t"] + T
        if consec == 1:
            prev_gap = None
        # 2 the limit
        if spec["limit"] and consec >= spec["limit"]:
            res.hit("limit_failures")
            if not failed_start or fail_t > prev_fail_known + 1e-6:
                res.violate("limit/start-deferred-not-failed-after-n-failures", "%d consecutive failed attempts "
                            "(limit %d) but the start Deferred %s" % (consec, spec["limit"],
                                                                      "failed only later" if failed_start else
                                                                      "has not failed"), word=word)
            later = reqs[i + 1:]
            if later and failed_start and later[0][0] > fail_t + 1e-9:
                res.violate("limit/kept-retrying-after-failing", "the start Deferred failed, yet %d more request(s) "
                            "followed" % len(later), word=word)
            res.ob("attempt_limit")
            break
    if failed_start and not spec["limit"] and spec["reset"] is not None and "O" not in word:
        res.violate("limit/unlimited-consumer-gave-up", "no attempt limit, yet the start Deferred failed with %s"
                    % start_rec["fires"][0][2].type.__name__, word=word)
    if failed_start and spec["limit"]:
        v = start_rec["fires"][0][2]
        if not isinstance(v, Failure):
            res.violate("limit/failure-value", "start Deferred failed with %r" % (v,))
    c02.check_stream(res, tr)
    if n_fail_total:
        res.sigs.add(sig(word, spec["init"], spec["max"], spec["limit"], spec["reset"], phase))
    if res.sample is None:
        res.sample = dict(kind="word", word=word, phase=phase, init=init, max=mx, limit=spec["limit"],
                          reset=spec["reset"],
                          requests=[(round(t - tr.base, 5), a, e["replied"], (e["result"][0]["error"] if e.get("result")
                                                                               else None)) for t, a, e in reqs][:14])


def run_growth(spec, res):
    rng = random.Random(spec["seed"])
    buf = rng.choice((256, 1024, 4096, 65536, 100000))
    size = rng.choice((buf + 10, buf * 3, buf * 17, 70000, (1 << 20) + 500, (1 << 20) * 2 + 9, 5000))
    size = min(size, 3 * (1 << 20))
    mx = rng.choice((None, None, buf * 16, 1 << 20, (1 << 20) + 1, 2 << 20, 4 << 20, size + 100, size - 1, buf))
    if mx is not None and mx < buf:
        mx = buf
    log = [dict(offsets=[9], sizes=[20], magic=0, codec=0),
           dict(offsets=[11], sizes=[size], magic=rng.choice((0, 1)), codec=0),
           dict(offsets=[12, 13], sizes=[30, 30], magic=0, codec=rng.choice((0, 1)))]
    rng_h = random.Random(spec["seed"] ^ 0x4011)
    if rng_h.random() < 0.35:
        # a wrapper whose records were all compacted away sits right in front of the oversized record
        log.insert(1, dict(offsets=[10], sizes=[], magic=rng_h.choice((0, 1)), codec=1, hollow=True))
        res.hit("hollow_wrapper_before_oversized_record")
    sc = base_scenario(spec["seed"], dict(buffer_size=buf, max_buffer_size=mx, discovery=rng.random() < 0.5), ["num", 9],
                       log=log, horizon=6.0)
    tr = cons.run_scenario(sc)
    if tr.capped and cons.report_spin(res, tr):
        return
    if tr.capped:
        res.inconclusive.append("scenario aborted: %s" % getattr(tr, "cap_reason", "?"))
        return
    res.n_sub += 1
    fetches = [e for e in tr.cluster.history if "req" in e and e["api"] == "Fetch"]
    seq = [e["req"]["topics"][0]["partitions"][0]["max_bytes"] for e in fetches
           if e["req"]["topics"][0]["partitions"][0]["offset"] in (10, 11)]
    # collapse repeats caused by empty long-polls at the same size
    sizes = [seq[0]] if seq else []
    for b in seq[1:]:
        if b != sizes[-1]:
            sizes.append(b)
    need = size + 26 + 12 + 20  # record + message and set overhead (upper bound on what must fit)
    MIB = 1 << 20
    for a, b in zip(sizes, sizes[1:]):
        cap = mx if mx is not None else float("inf")
        ok16 = b == min(a * 16, cap)
        ok2 = b == min(a * 2, cap)
        must16 = a <= MIB  # afkak documents it: x16 while the buffer is at most 1 MiB ('could result in 16MB buf'), then x2
        must2 = a > MIB
        if (must16 and not ok16) or (must2 and not ok2) or not (ok16 or ok2):
            res.violate("growth/wrong-step", "fetch buffer went from %d to %d (maximum %r): expected x16 up to 1 MiB, "
                        "then x2, clipped to the maximum" % (a, b, mx), sizes=sizes)
        res.hit("growth_steps")
        res.ob("growth_step")
    delivered = [m[0] for c_ in tr.calls for m in c_["msgs"]]
    st = tr.starts[0]
    failed = st["fires"] and not st["fires"][0][1]
    fits_initial = size + 60 <= buf
    if mx is not None and mx < size + 26:
        # the maximum is too small: must fail with ConsumerFetchSizeTooSmall, never skip
        if not failed or st["fires"][0][2].type.__name__ != "ConsumerFetchSizeTooSmall":
            res.violate("growth/too-small-maximum-not-reported", "the record (%d bytes) cannot fit the maximum buffer "
                        "%d but the start Deferred %s" % (size, mx, "failed with " + st["fires"][0][2].type.__name__
                                                          if failed else "did not fail"), sizes=sizes)
        if 12 in delivered or 13 in delivered:
            res.violate("growth/oversized-record-skipped", "messages after the oversized record were delivered")
        res.hit("too_small_failures")
    else:
        if failed and (mx is None or mx >= need):
            res.violate("growth/failed-although-maximum-suffices", "record of %d bytes, maximum %r, yet the start "
                        "Deferred failed with %s after buffer sizes %r" % (size, mx, st["fires"][0][2].type.__name__,
                                                                             sizes))
        elif not failed and 11 not in delivered and (mx is None or mx >= need):
            res.violate("growth/oversized-record-never-delivered", "record of %d bytes was never delivered; buffer "
                        "sizes tried %r (maximum %r)" % (size, sizes, mx))
    res.ob("oversized_record_outcome")
    c02.check_stream(res, tr)
    res.sigs.add(sig("growth", buf, size, mx))
    if res.sample is None or res.sample.get("kind") != "growth":
        res.sample = dict(kind="growth", initial=buf, record=size, maximum=mx, max_bytes_sequence=sizes,
                          delivered=delivered, start_failed=(st["fires"][0][2].type.__name__ if failed else None))


def run_unlimited(spec, res):
    """No attempt limit: still retrying after 40 consecutive failures."""
    rng = random.Random(spec["seed"])
    init, mx = rng.choice(SETTINGS)
    faults = [dict(api="Fetch", action=dict(kind="error", code=rng.choice(CODES)))]
    sc = base_scenario(spec["seed"], dict(retry_init=init, retry_max=min(mx, 2.0), max_attempts=0, reset=None),
                       ["num", 100], faults=faults, horizon=45 * min(mx, 2.0) + 5)
    tr = cons.run_scenario(sc)
    res.n_sub += 1
    fetches = [e for e in tr.cluster.history if "req" in e and e["api"] == "Fetch"]
    st = tr.starts[0]
    res.hit("unlimited_retry_runs")
    if st["fires"]:
        res.violate("limit/unlimited-consumer-gave-up", "no attempt limit, yet the start Deferred fired after %d "
                    "failed fetches" % len(fetches))
    elif len(fetches) < 40:
        res.violate("limit/unlimited-consumer-stopped-retrying", "only %d fetch attempts were made" % len(fetches))
    gaps = [b["t"] - a["reply_t"] for a, b in zip(fetches, fetches[1:])]
    if gaps and max(gaps) > min(mx, 2.0) + 1e-6:
        res.violate("delay/exceeds-maximum", "retry delay %.6f exceeds the maximum" % max(gaps))
    res.ob("unlimited_keeps_retrying")
    res.sigs.add(sig("unlimited", init, mx))
    if res.sample is None:
        res.sample = dict(kind="unlimited", attempts=len(fetches), gaps=[round(g, 4) for g in gaps[:10]])


def run(spec):
    res = Result()
    if spec["kind"] == "word":
        run_word(spec, res)
    elif spec["kind"] == "growth":
        run_growth(spec, res)
    else:
        run_unlimited(spec, res)
    return res


def coverage_extra(tier, seed, results):
    return dict(exhaustive=(tier == "thorough"),
                exhaustive_note="thorough enumerates all 21844 words over {R,T,O,S} up to length 7 (settings cycled over "
                                "a 4-point grid, attempt limit / reset policy / phase drawn); quick samples 340 words")

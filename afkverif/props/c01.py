"""C01 -- producer acknowledgements are truthful and fire exactly once."""
from twisted.python.failure import Failure

from ..core import Result, sig
from ..engines import prod

ID = "C01"
LEVEL = "exploration"
RULE = ("each evaluation is one producer scenario: generated cluster, producer configuration (acks 0/1/-1, batched or "
        "not, none/gzip, attempt limit, partitioner, version discovery on/off), 2..10 sends with unique keys/values "
        "(null, empty and large values included), cancels, stop, and a fault plan on produce attempts (error codes, "
        "per-partition errors, silent or dropping brokers with the write applied or not, late replies, leader moves, "
        "broker restarts, an unroutable topic); distinct = distinct (configuration, fault trace, event-order "
        "signature); non-trivial = at least one send reached the wire")
ASSUMPTIONS = ["'the broker leading the chosen partition' is judged against the cluster's ground truth at apply time",
               "sends are not issued after stop() (outside the statement)", "snappy not installed"]
REACH_MIN = {"sends_succeeded": {"quick": 400, "thorough": 7200}, "sends_failed": {"quick": 150, "thorough": 2700},
             "acks0_sends": {"quick": 60, "thorough": 1080}, "attempts_exhausted_by_error_code": {"quick": 8, "thorough": 144},
             "cancelled_sends": {"quick": 40, "thorough": 720}, "stopped_with_outstanding": {"quick": 7, "thorough": 126},
             "gzip_scenarios": {"quick": 40, "thorough": 720}, "magic1_scenarios": {"quick": 40, "thorough": 720}}


def cases(tier, seed):
    n = {"quick": 300, "thorough": 9000}[tier]
    out = [dict(seed=seed * 1000003 + 100000 + i) for i in range(n)]
    nm = {"quick": 100, "thorough": 3000}[tier]
    out += [dict(seed=seed * 1000003 + 170000 + i, profile="mixed") for i in range(nm)]
    nd = {"quick": 40, "thorough": 1200}[tier]
    out += [dict(seed=seed * 1000003 + 180000 + i, profile="down") for i in range(nd)]
    out += [dict(seed=seed * 1000003 + 190000 + i, profile="lookupfail") for i in range(nd)]
    return out


def contains_run(records, pairs):
    n = len(pairs)
    if n == 0:
        return True
    for i in range(0, len(records) - n + 1):
        if records[i:i + n] == pairs:
            return True
    return False


def check(res, tr, c09=False):
    from afkak import common as C
    sc = tr.sc
    cfg = sc["cfg"]
    cl = tr.cluster
    if tr.capped:
        res.inconclusive.append("scenario aborted: %s" % getattr(tr, "cap_reason", "?"))
        return
    reqs = prod.produce_requests(tr)
    events = [e for e in cl.history if e.get("api") == "Produce" and "req" in e]
    any_wire = bool(reqs)
    for b in cl.bad_frames:
        res.violate("unparseable-frame", "a broker received a frame the strict parser rejects: %s" % b["error"])
    for e in tr.w.clock.errors:
        if e[2] == "AlreadyCalledError":
            res.violate("fired-twice/AlreadyCalledError-in-reactor-event", "a Deferred was fired a second time: %s"
                        % e[3][-500:])
        else:
            res.ev("diag_reactor_event_raised_" + e[2])
    for (where_, stack_, did_) in getattr(tr, "second_firings", ()):
        res.ev("diag_second_firing_attempted_" + where_)  # diagnostic only, see c06
    for u in tr.unhandled:
        if u[0] == "AlreadyCalledError":
            res.violate("fired-twice/AlreadyCalledError-unhandled", "a Deferred was fired a second time: %s" % u[2])
        else:
            res.ev("diag_unhandled_failure_" + u[0])
    # a request carries each message once, under the topic it was sent to and under one partition only
    for r in reqs:
        seen = {}
        for (topic, part), recs in r["payloads"].items():
            for (k, v) in recs:
                s_ = prod.send_of(k, v)
                if s_ is None or s_ not in tr.sends:
                    continue
                if tr.sends[s_]["topic"] != topic:
                    res.violate("content/message-written-under-another-topic", "a produce request carries a message "
                                "of a send to %r in its payload for topic %r" % (tr.sends[s_]["topic"], topic), send=s_)
                prev = seen.setdefault((s_, k, v), (topic, part))
                if prev != (topic, part):
                    res.violate("content/message-in-several-partitions-of-one-request", "one produce request carries "
                                "the same message of send %r under %r and under %r" % (s_, prev, (topic, part)))
        res.ob("request_carries_each_message_once")
    if cfg["codec"]:
        res.hit("gzip_scenarios")
    if any(r["version"] >= 2 for r in reqs):
        res.hit("magic1_scenarios")
    exhausted_codes = False
    for s, rec in sorted(tr.sends.items()):
        pairs = [(rec["key"], m) for m in rec["msgs"]]
        fires = rec["fires"]
        if len(fires) > 1:
            res.violate("fired-twice", "send Deferred fired %d times" % len(fires), s=s,
                        fires=[(f[0], f[1]) for f in fires])
            continue
        if not fires or s in tr.unfired_at_horizon:
            wrote = any(any(contains_run(recs, pairs) for recs in r["payloads"].values()) for r in reqs)
            if not wrote and cfg["batch_send"] and not cfg["batch_every_t"] and tr.stop_called is None \
                    and s in getattr(tr, "queued_at_horizon", ()):
                # still queued behind thresholds that were never met and no time limit: legitimate (C19's subject)
                res.ev("queued_below_thresholds_without_time_limit")
                continue
            why = "after-stop" if tr.stop_called is not None else ("written" if wrote else "never-written")
            if cfg["acks"] == 0 and tr.stop_called is None:
                why = "acks0-%s" % ("written-but-never-reported" if wrote else "never-written")
            res.violate("never-fired/%s" % why, "send Deferred had not fired %.0f virtual seconds after the last "
                        "action" % (tr.horizon - tr.base), s=s, topic=rec["topic"], cancelled=rec["cancelled"],
                        stop=tr.stop_called, end_calls=tr.end_calls[:6])
            continue
        res.ob("exactly_once")
        t, ok, val, step = fires[0]
        if rec["cancelled"] is not None:
            res.hit("cancelled_sends")
        if not ok:
            res.hit("sends_failed")
            res.ob("failure_is_exception")
            continue
        # ---- success
        if isinstance(val, (Exception, Failure)):
            mech = "other"
            if isinstance(val, C.BrokerResponseError):
                mech = "error-code-until-attempts-exhausted"
                exhausted_codes = True
            elif isinstance(val, Failure):
                mech = "failure-object-as-value"
            res.violate("success-value-is-exception/%s" % mech, "the send Deferred CALLED BACK (success) with an "
                        "exception object as its value: %r" % (val,), s=s, attempts=cfg["max_req_attempts"])
            continue
        if rec["cancelled"] is not None and rec["cancelled"] <= t:
            res.violate("cancelled-send-succeeded", "a cancelled send reported success", s=s)
        if tr.stop_called is not None and t > tr.stop_called + 1e-9:
            res.violate("success-after-stop", "a send reported success after stop()", s=s, t=t, stop=tr.stop_called)
        if cfg["acks"] == 0:
            res.hit("acks0_sends")
            if val is not None:
                res.violate("acks0/value-not-None", "acks=0 send succeeded with a value", value=repr(val)[:100])
            log = tr.w.net.log
            fire_idx = max(i for i, ev in enumerate(log) if ev[0] == "fire" and ev[2] == s)
            written = any(r["idx"] < fire_idx and any(contains_run(recs, pairs) and (tp[0] == rec["topic"])
                                                      for tp, recs in r["payloads"].items()) for r in reqs)
            if not written:
                res.violate("acks0/success-before-handed-to-a-connection", "acks=0 send succeeded although no "
                            "produce request containing exactly its messages had been written", s=s)
            res.ob("acks0_written_before_success")
            res.hit("sends_succeeded")
            continue
        if not all(hasattr(val, a) for a in ("topic", "partition", "error", "offset")):
            res.violate("success-value/not-an-acknowledgement", "success value is %r" % (val,), s=s)
            continue
        if val.error != 0:
            res.violate("success-value/error-coded-response", "success value carries error %r" % (val.error,), s=s)
            continue
        if val.topic != rec["topic"] or (val.topic, val.partition) not in cl.logs:
            res.violate("success-value/wrong-topic-or-partition", "result names %s/%s, send was to %s" % (
                val.topic, val.partition, rec["topic"]), s=s)
            continue
        found = None
        near = []
        for e in events:
            for r in e["result"] or []:
                if (r["topic"], r["partition"]) != (val.topic, val.partition):
                    continue
                if not contains_run([(k, v) for (k, v, ts) in r["records"]], pairs):
                    continue
                near.append((e["t"], r["error"], r["applied"], e["replied"], e.get("reply_t"), r["base_offset"]))
                if r["applied"] and r["error"] == 0 and e["replied"] == "sent" and e["reply_t"] <= t + 1e-9 \
                        and r["leader_at_apply"] == e["broker"]:
                    if found is None or r["base_offset"] == val.offset:
                        found = (e, r)
        if found is None:
            res.violate("success-without-acknowledgement", "send succeeded but no leader acknowledged, without error "
                        "and before the Deferred fired, a produce request containing exactly its messages",
                        s=s, value=repr(val), candidates=near[:4])
        elif found[1]["base_offset"] != val.offset:
            res.violate("success-value/wrong-offset", "result offset %r, broker returned %r" % (
                val.offset, found[1]["base_offset"]), s=s)
        res.ob("success_implies_acknowledged")
        res.hit("sends_succeeded")
    # reach: was there a batch that used up its attempts on error codes?
    for s, rec in tr.sends.items():
        if rec["fires"] and not rec["fires"][0][1]:
            v = rec["fires"][0][2]
            if isinstance(v, Failure) and v.check(C.BrokerResponseError):
                exhausted_codes = True
    if exhausted_codes:
        res.hit("attempts_exhausted_by_error_code")
    if tr.stop_called is not None:
        if getattr(tr, "stop_unfired", None) is not None and any(
                r["t"] <= tr.stop_called and (not r["fires"] or r["fires"][0][0] >= tr.stop_called - 1e-9)
                for r in tr.sends.values()):
            res.hit("stopped_with_outstanding")
    if any_wire:
        res.sig = sig(sorted(cfg.items(), key=str), [(f.get("nth"), f["action"].get("kind"), f["action"].get("code"))
                                                     for f in sc["faults"]], tuple(tr.w.clock.trace[:4000]))
    if res.sample is None:
        res.sample = dict(config=cfg, topics=sc["topics"], sends=[(d["s"], d["t"], d["topic"], d["msgs"], d["cancel"])
                                                                   for d in sc["sends"]],
                          stop=sc["stop"], faults=sc["faults"], events=sc["events"],
                          outcomes={str(s): [(round(f[0], 4), f[1], repr(f[2])[:80]) for f in r["fires"]]
                                    for s, r in tr.sends.items()},
                          produce_requests=[(round(r["t"], 4), r["corr"], sorted(r["payloads"])) for r in reqs][:10])


def run(spec):
    res = Result()
    sc = prod.gen_scenario(spec["seed"], spec.get("profile", "general"))
    tr = prod.run_scenario(sc)
    check(res, tr)
    return res

"""C17 -- a started group member always progresses toward stable membership."""
import itertools
import random

from ..core import Result, sig
from ..engines import grp

ID = "C17"
LEVEL = "fault_enumeration"
RULE = ("each evaluation is one live group scenario with a fault word: a sequence of (request kind, occurrence index, "
        "failure kind) applied to the member's coordinator lookup, topic metadata load, JoinGroup, leader's partition "
        "lookup, SyncGroup, Heartbeat and to its consumers' OffsetFetch/OffsetCommit/processor; all single faults are "
        "enumerated, pairs are enumerated in thorough and sampled in quick, longer words (<= 6) are sampled; an online "
        "monitor evaluates the never-idle predicate at every quiescent point of the injected reactor. distinct = "
        "distinct fault word; non-trivial = the word is non-empty and at least one of its faults fired")
ASSUMPTIONS = ["'idle' is judged from outside: no lookup/join/sync/leave request of the member outstanding, no delayed "
               "call bound to the member's join_and_sync, no heartbeat on the wire within interval + timeout while the "
               "last membership outcome it was told is a success, no shutdown work of its partition consumers pending "
               "(commit outstanding, commit retry timer, processor call pending), no connection attempt or client-side "
               "retry timer pending, start Deferred unfired, stop not called -- and this has lasted 8 virtual seconds "
               "without a single lookup/group request from the member (the second condition only guards against an "
               "attribution gap in the first; correct code never satisfies the first at all)",
               "back-off classes judged exactly only where the documentation is unambiguous: RebalanceInProgress, "
               "NotCoordinator, CoordinatorNotAvailable, IllegalGeneration, UnknownMemberId -> retry_backoff_ms; a "
               "timed-out group request -> fatal_backoff_ms; a failed coordinator lookup -> initial_backoff_ms (timed "
               "out: fatal); every other gap must be one of the three documented values",
               "bounded recovery: 12 virtual seconds after the last fault fired (fatal back-off 2 s, session 6 s, "
               "client timeout 1 s) the coordinator lists the member in a Stable group and each assigned partition "
               "was fetched within the last 2 s",
               "a JoinGroup left unanswered is bounded by the 35 s join timeout and is therefore only used in the "
               "long-horizon sub-workload"]
REACH_MIN = {"faults_fired": {"quick": 300, "thorough": 3565},
             "quiescent_points_judged": {"quick": 100000, "thorough": 1188648},
             "backoff_gaps_checked": {"quick": 120, "thorough": 1426},
             "non_kafka_errors_injected": {"quick": 15, "thorough": 30},
             "recoveries_checked": {"quick": 200, "thorough": 2377}}

POINTS = [("FindCoordinator", 0), ("FindCoordinator", 1), ("Metadata", 0), ("Metadata", 1), ("Metadata", 2),
          ("JoinGroup", 0), ("JoinGroup", 1), ("SyncGroup", 0), ("SyncGroup", 1), ("Heartbeat", 0), ("Heartbeat", 2),
          ("OffsetFetch", 0), ("OffsetCommit", 0), ("OffsetCommit", 1), ("processor", 0), ("processor", 1),
          ("processor", 2), ("processor", 3)]
GROUP_CODES = (14, 15, 16, 22, 25, 27, 23, 24, 26, 29)
KINDS_BY_API = {
    "FindCoordinator": [("error", 15), ("error", 16), ("error", 14), ("error", 29), ("silent", 0), ("drop", 0),
                        ("garbage", 0)],
    "Metadata": [("error", 5), ("error", 3), ("silent", 0), ("drop", 0), ("garbage", 0)],
    "JoinGroup": [("error", c) for c in GROUP_CODES] + [("drop", 0), ("garbage", 0)],
    "SyncGroup": [("error", c) for c in GROUP_CODES] + [("silent", 0), ("drop", 0), ("garbage", 0)],
    "Heartbeat": [("error", c) for c in GROUP_CODES] + [("silent", 0), ("drop", 0), ("garbage", 0)],
    "OffsetFetch": [("error", 14), ("error", 16), ("error", 15), ("silent", 0)],
    "OffsetCommit": [("error", 22), ("error", 25), ("error", 27), ("error", 16), ("error", 12), ("silent", 0)],
    "processor": [("fail", 0)],
}
RETRY_CODES = (27, 16, 15, 22, 25)


def singles():
    out = []
    for (api, k) in POINTS:
        for (kind, code) in KINDS_BY_API[api]:
            out.append((api, k, kind, code))
    return out


def cases(tier, seed):
    S = singles()
    rng = random.Random(seed * 13 + 17)
    out = []
    i = 0

    def add(word, **kw):
        nonlocal i
        d = dict(word=[list(x) for x in word], seed=seed * 1000003 + 1700000 + i)
        d.update(kw)
        out.append(d)
        i += 1
    for s_ in S:
        add([s_], latency0=True)
        add([s_], latency0=False, peers=1)
    for k in range(6):
        for peers in (0, 1, 2):
            add([("processor", k, "fail", 0)], latency0=(k % 2 == 0), peers=peers)
    # a member of another client library whose subscription the leader cannot decode: a non-Kafka error inside
    # the join (UnicodeDecodeError in generate_assignments); it leaves again later
    for k in range(6):
        add([], latency0=(k % 2 == 0), peers=k % 2, foreign=dict(t=[2.0, 3.5, 0.5][k % 3],
                                                                  leave=(None if k < 3 else 6.0),
                                                                  blob="0000000000010002fffe00000000"))
    # a second error reaching the member while its (re)join is still held by the coordinator, then the join or sync
    # itself failing: a late heartbeat answer overlapping a rejected commit
    tmpl = []
    for c in (1,):
        for h in (1, 2, 3, 4):
            for code1 in (22, 27):
                for (api3, code3) in (("SyncGroup", 27), ("JoinGroup", 16), ("SyncGroup", 22)):
                    tmpl.append([("OffsetCommit", h, "error-after-heartbeat", code1), ("Heartbeat", h, "late", 27),
                                 (api3, h, "error-after-heartbeat", code3)])
    for rep in range(2 if tier == "quick" else 12):
        for wd in tmpl:
            add(wd, latency0=rng.random() < 0.5, peers=rng.choice((1, 1, 2)), dense=True)
    # the same overlap with a SyncGroup that is answered late (and successfully): the stale heartbeat's refusal lands
    # between the JoinGroup and SyncGroup replies
    for rep in range(2 if tier == "quick" else 10):
        for h in (1, 2, 3, 4):
            for code1 in (22, 27):
                add([("OffsetCommit", h, "error-after-heartbeat", code1), ("Heartbeat", h, "late", 27),
                     ("SyncGroup", h, "slow-after-heartbeat", 0)], latency0=rng.random() < 0.5, peers=0, dense=True)
    # a non-Kafka processor failure arriving while the group waits for that consumer to shut down before rejoining
    for h in (1, 2, 3):
        for j in range(8):
            add([("Heartbeat", h, "error", 27), ("processor", j, "fail-async", 0)], latency0=(j % 2 == 0), peers=0,
                dense=True, slowproc=0.7, one_partition=True)
    # the coordinator fails over: the group moves to another broker while the old one goes silent for the member's
    # membership requests (nothing else tells the member: no records arrive, so nothing is committed meanwhile)
    for k in range(6 if tier == "quick" else 60):
        add([], latency0=False, peers=k % 2, failover=dict(t=[2.4, 3.3, 4.6][k % 3]), quiet=True)
    # a rebalance arriving while a partition consumer's commit is unanswered
    for rep in range(2 if tier == "quick" else 10):
        for h in (2, 3, 4):
            for code in (27, 22, 16):
                add([("OffsetCommit", h - 1, "silent-after-heartbeat", 0), ("Heartbeat", h, "error", code)],
                    latency0=rng.random() < 0.5, peers=rng.choice((0, 1, 2)), dense=True)
    # ... and then REJECTED (the member has meanwhile been superseded): the shutdown of that consumer, which the
    # rejoin waits for, was itself waiting for this commit
    for rep in range(2 if tier == "quick" else 10):
        for h in (2, 3, 4):
            for code in (22, 25, 16, 7):
                add([("OffsetCommit", h - 1, "late-error-after-heartbeat", code), ("Heartbeat", h, "error", 27)],
                    latency0=rng.random() < 0.5, peers=rng.choice((0, 1)), dense=True, client_timeout=3.0)
    # an unanswered heartbeat times out while the rejoin caused by a rejected commit is being held by the
    # coordinator; the join then succeeds with the long back-off still armed, and the new generation's first
    # heartbeat asks for yet another rejoin
    for rep in range(2 if tier == "quick" else 10):
        for h in (1, 2, 3):
            for code in (22, 25):
                add([("Heartbeat", h, "silent", 0), ("OffsetCommit", h, "error-after-heartbeat", code),
                     ("JoinGroup", h, "slow-after-heartbeat", 15),
                     # (the rule above takes heartbeat h out of this rule's count: its h-th is the one after)
                     ("Heartbeat", h, "error", 27)],
                    latency0=rng.random() < 0.5, peers=0, dense=True)
    # a failed coordinator lookup, then - in the join its retry timer starts - a failed metadata load
    for code in (15, 16, 14):
        for mk in (("silent", 0), ("drop", 0), ("garbage", 0), ("error", 5)):
            for k in (0, 1, 2):
                add([("FindCoordinator", 0, "error", code), ("Metadata", k, mk[0], mk[1])], latency0=(k % 2 == 0),
                    peers=0)
    # members with different subscriptions: the member under watch leads a group in which somebody subscribes to a
    # topic it does not (its partition lookup as leader has to cover the others' topics too)
    for k in range(8 if tier == "quick" else 60):
        add([] if k % 2 == 0 else [("Heartbeat", 1 + k % 3, "error", 27)], latency0=(k % 4 < 2), peers=1 + (k % 3 == 2),
            mixed_topics=(["ga", "gb"], ["gb"])[(k // 2) % 2], dense=(k % 2 == 1))
    add([("JoinGroup", 0, "silent", 0)], latency0=True, long=True)
    add([("JoinGroup", 1, "silent", 0)], latency0=False, long=True, peers=1)
    core = [s_ for s_ in S if s_[1] in (0, 1) and s_[0] != "processor"]
    if tier == "thorough":
        short = [s_ for s_ in core if s_[2] != "drop"]
        for a, b in itertools.product(short, short):
            if a[:2] != b[:2]:
                add([a, b], latency0=(i % 2 == 0))
        n_long = 3000
    else:
        for _ in range(150):
            a, b = rng.sample(core, 2)
            add([a, b], latency0=rng.random() < 0.5, peers=rng.choice((0, 0, 1)))
        n_long = 60
    for _ in range(n_long):
        n = rng.choice((3, 4, 6))
        word = []
        seen = set()
        for _k in range(n):
            s_ = rng.choice(S)
            if s_[:2] in seen or s_[2] in ("garbage", "fail"):
                continue
            seen.add(s_[:2])
            word.append(s_)
        add(word, latency0=rng.random() < 0.3, peers=rng.choice((0, 1, 2)))
    return out


def build(spec):
    rng = random.Random(spec["seed"])
    sc = grp.gen_scenario(spec["seed"], "single")
    sc["brokers"] = [1] if spec.get("latency0") else rng.choice(([1], [1, 2]))
    sc["topics"] = {"ga": rng.choice((1, 2, 3))}
    sc["latency"] = 0.0 if spec.get("latency0") else rng.choice((0.002, 0.02))
    sc["preload"] = 4
    sc["stored"] = False
    m0 = sc["members"][0]
    m0.update(name="m0", topics=["ga"], start=0.0, stop=None, kill=None, commit_every_n=1, commit_every_ms=300,
              procs=[["sync"]] * 8, consumer_kwargs=dict(fetch_max_wait_time=300))
    if spec.get("slowproc"):
        m0["procs"] = [["async", spec["slowproc"]]] * 8
    if spec.get("one_partition"):
        sc["topics"] = {"ga": 1}
    members = [m0]
    for j in range(spec.get("peers", 0)):
        p = dict(m0)
        p.update(name="m%d" % (j + 1), start=(round(rng.choice((0.0, 0.3)), 3) if spec.get("dense") else
                                              round(rng.choice((0.0, 1.5, 4.0)), 3)), procs=[["sync"]] * 8)
        p["timing"] = dict(m0["timing"])
        members.append(p)
    if spec.get("mixed_topics"):
        sc["topics"] = {"ga": 2, "gb": 2}
        for p in members[1:]:
            p["topics"] = list(spec["mixed_topics"])
            p["start"] = max(p["start"], 0.2)  # the member under watch joins first and leads
    sc["members"] = members
    sc["events"] = [[0.6, "append", "ga", 0, 2], [2.2, "append", "ga", 0, 1], [5.0, "append", "ga", 0, 2]]
    if spec.get("dense"):
        t = 0.4
        sc["events"] = []
        while t < 9.0:
            t += rng.choice((0.15, 0.35, 0.6))
            sc["events"].append([round(t, 3), "append", "ga", rng.randrange(sc["topics"]["ga"]), 1])
    faults = []
    for (api, k, kind, code) in spec["word"]:
        if api == "processor":
            procs = [list(x) for x in m0["procs"]]
            procs[k % len(procs)] = ["fail"] if kind == "fail" else ["fail_async", spec.get("slowproc", 0.7)]
            m0["procs"] = procs
            continue
        if kind in ("error-after-heartbeat", "silent-after-heartbeat", "slow-after-heartbeat",
                    "late-error-after-heartbeat"):
            continue  # installed by the monitor when that heartbeat is issued
        act = dict(kind=kind)
        if kind == "late":
            act = dict(kind="error", code=code, delay=0.5)
        if kind == "error":
            act["code"] = code
        if kind in ("silent", "drop"):
            act["apply"] = False
        faults.append(dict(api=api, client_id=b"m0", nth=[k], action=act, _word=(api, k, kind, code)))
    sc["faults"] = faults
    if spec.get("failover"):
        sc["brokers"] = [1, 2]
        sc["events"] = [e for e in sc["events"] if e[0] < 1.0] if spec.get("quiet") else sc["events"]
        sc["events"].append([spec["failover"]["t"], "coordinator_failover", 2])
        sc["events"].sort(key=lambda e: e[0])
    if spec.get("foreign"):
        fo = spec["foreign"]
        sc["events"].append([fo["t"], "foreign_join", "zz-foreign-1", fo["blob"]])
        if fo.get("leave") is not None:
            sc["events"].append([fo["leave"], "foreign_leave", "zz-foreign-1"])
        sc["events"].sort(key=lambda e: e[0])
    if spec.get("client_timeout"):
        sc["timeout"] = spec["client_timeout"]
    sc["horizon"] = 75.0 if spec.get("long") else 60.0
    sc["max_steps"] = 600000
    return sc


class Mon(object):
    W = 8.0  # confirmation window of the never-idle verdict (virtual seconds)

    def __init__(self, res, spec):
        self.res = res
        self.spec = spec
        self.idle_since = {}
        self.stable = {}
        self.last_hb = {}
        self.last_progress_req = {}
        self.reported = set()
        self.last_fault_t = None
        self.last_sync_ok = {}
        self.timer = {}  # member -> time the pending join_and_sync call is due, as of the last quiescent point
        self.pending_backoff = {}

    def on_event(self, tr, ev):
        name = ev["member"]
        if name is None:
            return
        k = ev["kind"]
        if k == "req":
            if ev["api"] == "Heartbeat":
                self.last_hb[name] = ev["t"]
                if name == "m0":
                    self.n_hb = getattr(self, "n_hb", 0) + 1
                    for (api, h, kind, code) in [tuple(x) for x in self.spec["word"]]:
                        if kind == "error-after-heartbeat" and h == self.n_hb - 1:
                            tr.cluster.faults.rules.insert(0, dict(api=api, client_id=b"m0", nth=[0], _seen=0,
                                                                   action=dict(kind="error", code=code)))
                        if kind == "slow-after-heartbeat" and h == self.n_hb - 1:
                            tr.cluster.faults.rules.insert(0, dict(api=api, client_id=b"m0", nth=[0], _seen=0,
                                                                   action=dict(kind="ok", delay=(code / 10.0) if code
                                                                               else 0.7)))
                        if kind == "late-error-after-heartbeat" and h == self.n_hb - 1:
                            tr.cluster.faults.rules.insert(0, dict(api=api, client_id=b"m0", nth=[0], _seen=0,
                                                                   action=dict(kind="error", code=code, delay=1.6)))
                        if kind == "silent-after-heartbeat" and h == self.n_hb - 1:
                            tr.cluster.faults.rules.insert(0, dict(api=api, client_id=b"m0", nth=[0, 1, 2], _seen=0,
                                                                   action=dict(kind="silent", apply=False)))
            if ev["api"] in grp.LOOKUP_APIS + grp.GROUP_APIS:
                self.last_progress_req[name] = ev["t"]
                self.idle_since.pop(name, None)
            if ev["api"] == "JoinGroup":
                self.stable[name] = False
        elif k == "req_done":
            api = ev["api"]
            if api == "SyncGroup" and ev["ok"] and ev["srv_error"] == 0:
                self.stable[name] = True
                self.last_sync_ok[name] = ev["t"]
            elif api in ("JoinGroup", "SyncGroup", "Heartbeat") and (not ev["ok"] or ev["srv_error"]):
                self.stable[name] = False
            if self.spec.get("latency0") and api in ("JoinGroup", "SyncGroup", "Heartbeat", "FindCoordinator") \
                    and (ev["srv_error"] or ((not ev["ok"]) and ev["failure"] == "RequestTimedOutError")) \
                    and self.timer.get(name) is None and name not in self.pending_backoff \
                    and not (api == "FindCoordinator" and name in self.last_sync_ok):
                # (a coordinator lookup after the first sync may belong to a partition consumer's commit path, whose
                # failure is followed by whatever back-off the consumer's error calls for)
                self.pending_backoff[name] = ev
            elif api == "OffsetCommit" and (not ev["ok"] or ev["srv_error"] in (22, 25, 27)):
                self.stable[name] = False

    def quiesce(self, tr):
        res = self.res
        now = tr.w.clock.seconds()
        for name, m in tr.members.items():
            if m.start_called is None or m.stop_called is not None or m.start_fires or m.killed:
                continue
            res.hit("quiescent_points_judged")
            self.backoff(tr, m, now)
            why = self.progress(tr, m, now)
            if why is not None:
                self.idle_since.pop(name, None)
                continue
            t0 = self.idle_since.setdefault(name, now)
            if now - t0 >= self.W and name not in self.reported:
                self.reported.add(name)
                tail = [(round(e["t"] - tr.base, 3), e["kind"], e.get("api", ""), e.get("failure") or e.get("srv_error"))
                        for e in tr.events if e["member"] == name and e["kind"] in ("req", "req_done", "start_fired")
                        and e.get("api") not in ("Fetch",)][-14:]
                state = getattr(m.group, "_state", "?")
                res.violate("idle/%s" % self.classify(tr, m), "member %s is started and not stopped, yet since "
                            "t=%.3f nothing is in flight, scheduled or heartbeating for it (still so %.1fs later); "
                            "its state reads %s" % (name, t0 - tr.base, now - t0, state),
                            word=self.spec["word"], last_events=tail)

    def backoff(self, tr, m, now):
        """Zero latency: the rejoin timer armed by a clean error is due after the documented back-off."""
        due = None
        for k, dc in grp.member_delayed_calls(tr, m):
            if k == "group.join_and_sync":
                due = dc.getTime() if due is None else min(due, dc.getTime())
        e = self.pending_backoff.pop(m.name, None)
        prev = self.timer.get(m.name)
        self.timer[m.name] = due
        if e is None or due is None or prev is not None or e["step"] != tr.w.clock.steps - 0 and e["t"] != now:
            return
        res = self.res
        tm = m.spec["timing"]
        retry, fatal, initial = tm["retry"] / 1000.0, tm["fatal"] / 1000.0, tm["initial"] / 1000.0
        gap = due - e["t"]
        err = e["srv_error"]
        timed_out = (not e["ok"]) and e["failure"] == "RequestTimedOutError"
        res.hit("backoff_gaps_checked")
        docs = (retry, fatal, initial)
        what = "%s %s" % (e["api"], "timed out" if timed_out else "error %s" % (err,))
        if not any(abs(gap - d) < 1e-6 for d in docs):
            res.violate("backoff/not-a-documented-delay", "%s armed the rejoin %.4fs later; documented back-offs are "
                        "%r" % (what, gap, docs), word=self.spec["word"])
        elif e["api"] != "FindCoordinator" and not timed_out and err in RETRY_CODES and abs(gap - retry) > 1e-6:
            res.violate("backoff/retriable-error-not-retried-after-retry-backoff", "%s armed the rejoin %.4fs later, "
                        "retry_backoff is %.4fs" % (what, gap, retry), word=self.spec["word"])
        elif e["api"] != "FindCoordinator" and timed_out and abs(gap - fatal) > 1e-6:
            res.violate("backoff/timeout-not-retried-after-fatal-backoff", "%s armed the rejoin %.4fs later, "
                        "fatal_backoff is %.4fs" % (what, gap, fatal), word=self.spec["word"])
        elif e["api"] == "FindCoordinator" and not timed_out and err in (15, 16) and abs(gap - initial) > 1e-6:
            res.violate("backoff/failed-lookup-not-retried-after-initial-backoff", "%s armed the rejoin %.4fs later, "
                        "initial_backoff is %.4fs" % (what, gap, initial), word=self.spec["word"])
        res.ob("documented_backoff")

    def classify(self, tr, m):
        logged = [str(x) for x in getattr(getattr(tr, "traps", None), "errors_logged", ())]
        escaped = [x for x in logged if "error during join_and_sync" in x]
        if escaped:
            import re
            mm = re.search(r"<class '([\w.]+)'>", escaped[-1])
            full = mm.group(1) if mm else "?"
            if full.startswith("afkak.common."):
                return "kafka-error-escaped-join_and_sync/%s" % full.split(".")[-1]
            # the listed finding's history: another library's member whose subscription the leader cannot decode
            # (UnicodeDecodeError out of generate_assignments).  Any other exception getting out of the join, or
            # this one without such a member in the group, is a different history.
            if full.endswith("UnicodeDecodeError") and self.spec.get("foreign"):
                return "non-kafka-exception-escaped-join_and_sync"
            return "non-kafka-exception-escaped-join_and_sync/%s" % full.split(".")[-1]
        if getattr(m.group, "_rejoin_d", None):
            stuck = [c for c in m.consumers if getattr(c["obj"], "_shutdown_d", None) is not None]
            if stuck:
                return "join-waits-forever-for-a-consumer-shutdown"
            return "join-in-progress-awaits-nothing"
        last = [e for e in tr.events if e["member"] == m.name and e["kind"] == "req_done"
                and e["api"] in grp.LOOKUP_APIS + grp.GROUP_APIS]
        if last:
            e = last[-1]
            what = e["failure"] or ("error-%s" % e["srv_error"] if e["srv_error"] else "ok")
            return "nothing-scheduled-after/%s/%s" % (e["api"], what)
        return "nothing-scheduled"

    def progress(self, tr, m, now):
        if m.outstanding(grp.LOOKUP_APIS + grp.GROUP_APIS):
            return "request"
        dcs = grp.member_delayed_calls(tr, m)
        kinds = [k for k, _ in dcs]
        if "group.join_and_sync" in kinds:
            return "rejoin-timer"
        tm = m.spec["timing"]
        if "heartbeat_looper" in kinds:
            # a timer that is armed while every tick is skipped is not progress: a heartbeat (or the sync that
            # started the timer) must have been on the wire within one interval plus the client timeout
            last = max([x for x in (self.last_hb.get(m.name), self.last_sync_ok.get(m.name)) if x is not None] or [None],
                       key=lambda x: x if x is not None else -1)
            if last is not None and now - last <= tm["hb"] / 1000.0 + tr.sc["timeout"] + 1e-6:
                return "stable" if self.stable.get(m.name) else "heartbeating"
        if m.outstanding(("OffsetCommit",)) or any(c["done"] is None for c in m.calls):
            return "consumer-shutdown-work"
        if any(k.startswith("consumer.") and "commit" in k for k in kinds):
            return "consumer-commit-retry"
        if any(k in ("afkak_client_unattributed",) or k.startswith("client.") or k.startswith("closure.")
               for k in kinds):
            return "client-timer"
        for a in tr.w.net.pending_attempts:
            f = a.factory
            if any(f is b for b in (m.client.clients or {}).values()):
                return "connecting"
            if not hasattr(f, "node_id"):
                return "bootstrapping"
        return None


def tr_logged(tr):
    return getattr(tr, "logged", ()) or ()


def run(spec):
    res = Result()
    sc = build(spec)
    mon = Mon(res, spec)
    snap = {}

    def finish(tr_):
        mon.quiesce(tr_)  # a world in which nothing at all is scheduled jumps to the horizon without an event
        g_ = tr_.cluster.groups.get(grp.GROUP)
        m_ = tr_.members["m0"]
        mid_ = m_.group.member_id
        snap.update(state=(g_.state if g_ else None), members=(list(g_.members) if g_ else []), mid=mid_,
                    blob=(g_.members[mid_].assignment if g_ and mid_ in g_.members else None))
    def until(tr_):
        # long enough: 14 s at least, and 13 s beyond the last fault that fired; a reported wedge ends it too
        now = tr_.w.clock.seconds() - tr_.base
        if spec.get("long"):
            return False
        if now < 14.0:
            return False
        last = max([f[0] for f in tr_.cluster.faults.fired] or [tr_.base]) - tr_.base
        if spec.get("failover"):
            last = spec["failover"]["t"]
        pf = [c["t"] - tr_.base for c in tr_.members["m0"].calls if c.get("failed")]
        if pf:
            last = max(last, pf[-1])
        return now >= last + 13.0
    tr = grp.run_scenario(sc, hooks=dict(event=mon.on_event, quiesce=mon.quiesce, finish=finish, until=until))
    if tr.capped:
        res.inconclusive.append("scenario aborted: %s" % getattr(tr, "cap_reason", "?"))
        return res
    res.n_sub += 1
    m = tr.members["m0"]
    m.start_fires = [f for f in m.start_fires if f["t"] < tr.end_t]  # the harness stops every member afterwards
    cl = tr.cluster
    fired = [f for f in cl.faults.fired]
    res.hit("faults_fired", len(fired))
    word = [tuple(x) for x in spec["word"]]
    # a malformed reply is decoded by afkak into some error (UnknownError, BufferUnderflowError...) or raises a
    # non-Kafka exception, depending on the bytes: either a rejoin or a failed start Deferred is acceptable there
    non_kafka = [x for x in word if x[2] in ("fail", "fail-async")]
    malformed = [x for x in word if x[2] == "garbage"]
    # which of the word's faults actually fired
    fired_keys = set()
    for e in cl.history:
        if "req" in e and e.get("client_id") == b"m0" and e.get("action", {}).get("kind") in ("error", "silent", "drop",
                                                                                             "garbage"):
            fired_keys.add((e["api"], e["action"]["kind"]))
    t_last_fault = max([e["t"] for e in cl.history if "req" in e and e.get("client_id") == b"m0"
                        and e.get("action", {}).get("kind") in ("error", "silent", "drop", "garbage")] or [tr.base])
    if spec.get("failover"):
        # the old coordinator stays silent for good: the last change of the environment is the fail-over itself
        t_last_fault = tr.base + spec["failover"]["t"]
    proc_failed = [c for c in m.calls if c["beh"][0] in ("fail", "fail_async") and c.get("failed")]
    if proc_failed:
        t_last_fault = max(t_last_fault, proc_failed[-1]["t"])
    # 3 non-Kafka errors surface on the start Deferred
    nk_fired = [x for x in non_kafka if (x[0], x[2]) in fired_keys or (x[0] == "processor" and proc_failed)]
    if spec.get("foreign"):
        # did this member, as leader, receive the undecodable subscription?
        for e in cl.history:
            if "req" in e and e["api"] == "JoinGroup" and e.get("client_id") == b"m0" and e.get("result") \
                    and "zz-foreign-1" in (e["result"].get("members") or ()) and e["replied"] == "sent":
                nk_fired.append(("leader-cannot-decode-subscription", 0, "fail", 0))
                t_last_fault = max(t_last_fault, e["reply_t"])
                break
    if nk_fired:
        res.hit("non_kafka_errors_injected")
        if "idle/" not in " ".join(v["key"] for v in res.violations):
            if not m.start_fires:
                res.violate("non-kafka/start-deferred-never-fired/%s" % nk_fired[0][0], "a non-Kafka failure was "
                            "injected at %s but the Deferred returned by start() has not fired %.1fs later"
                            % (nk_fired[0][0], tr.end_t - t_last_fault), word=spec["word"])
            elif proc_failed and not m.start_fires[0]["ok"] and \
                    m.start_fires[0]["t"] > min(c["done"]["t"] for c in proc_failed if c.get("done")) + 3.0:
                res.violate("non-kafka/first-processor-failure-did-not-surface", "the processor failed at t=%.2f but "
                            "the start Deferred fired only at t=%.2f (after %d failure(s))" % (
                                min(c["done"]["t"] for c in proc_failed if c.get("done")) - tr.base,
                                m.start_fires[0]["t"] - tr.base, len(proc_failed)), word=spec["word"])
            elif m.start_fires[0]["ok"]:
                res.violate("non-kafka/start-deferred-succeeded/%s" % nk_fired[0][0], "a non-Kafka failure was "
                            "injected at %s and the start Deferred fired with success" % nk_fired[0][0],
                            word=spec["word"])
        res.ob("non_kafka_error_surfaces")
    elif m.start_fires and not malformed:
        f = m.start_fires[0]
        res.violate("retriable/start-deferred-fired-without-a-non-kafka-error", "only Kafka-level faults were "
                    "injected, yet the start Deferred fired (%s)" % ("ok" if f["ok"] else repr(f["value"])[:160]),
                    word=spec["word"])
    # 4 bounded recovery
    if not nk_fired and not m.start_fires:
        res.hit("recoveries_checked")
        mid = snap.get("mid")
        end = tr.end_t
        if end - t_last_fault >= 12.0:
            if snap.get("state") != "Stable" or mid not in snap.get("members", ()):
                if not any(v["key"].startswith("idle/") for v in res.violations):
                    res.violate("recovery/not-a-stable-member-after-faults-ceased", "%.1fs after the last fault the "
                                "coordinator shows group state %s with members %r; this member calls itself %r"
                                % (end - t_last_fault, snap.get("state"), snap.get("members"), mid),
                                word=spec["word"])
            else:
                blob = snap.get("blob")
                from .. import refproto as R
                parts = [(t, p) for t, ps in (R.parse_assignment(blob)["topics"] if blob else []) for p in ps]
                recent = set()
                for r in m.reqs:
                    if r["api"] == "Fetch" and r["t"] >= end - 2.0:
                        for t_ in r["body"]["topics"]:
                            for p_ in t_["partitions"]:
                                recent.add((t_["topic"], p_["partition"]))
                missing = [tp for tp in parts if tp not in recent]
                if missing:
                    res.violate("recovery/assigned-partitions-not-consumed-again", "stable again, but partitions %r "
                                "were not fetched during the last 2s" % missing, word=spec["word"])
            res.ob("recovers_after_faults_cease")
        else:
            res.inconclusive.append("observation ended %.1fs after the last fault" % (end - t_last_fault))
    for (t, label, typ, tb) in tr.clock_errors:
        res.violate("escape/exception-escaped-a-reactor-event/%s" % typ, "%s escaped the reactor event %s" % (typ, label),
                    tb=tb[-700:])
    if fired or proc_failed:
        res.sigs.add(sig("c17", tuple(word), spec.get("peers", 0), bool(spec.get("latency0"))))
    if res.sample is None:
        res.sample = dict(word=spec["word"], faults_fired=[(round(f[0] - tr.base, 3),) + tuple(f[1:]) for f in fired][:8],
                          start_fired=[(round(f["t"] - tr.base, 3), f["ok"]) for f in m.start_fires],
                          joins=sum(1 for r in m.reqs if r["api"] == "JoinGroup"),
                          final_group_state=(cl.groups[grp.GROUP].state if grp.GROUP in cl.groups else None))
    return res



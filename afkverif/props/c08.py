"""C08 -- cached cluster metadata mirrors the broker's answer and self-heals when stale."""
import random
import zlib

from ..core import Result, sig
from ..engines.world import World
from ..simkafka import ERR_LEADER_NOT_AVAILABLE
from ..traps import Traps

ID = "C08"
LEVEL = "exploration"
RULE = ("each evaluation is one scenario: (mirror) a generated history of cluster mutations (topics appearing, "
        "disappearing, erroring, gaining/losing partitions and leaders; brokers added, hidden, stopped, re-addressed) "
        "interleaved with per-topic and full refreshes and data requests on one real KafkaClient, every metadata "
        "response compared with the client's view right after it was merged; (invalidate) one data call meeting a "
        "not-leader/unknown-partition answer or a failed send, followed by a second call whose wire traffic is "
        "inspected; (recover) a producer and consumers running while a finite fault sequence is injected. "
        "distinct = distinct (kind, mutation/fault word); non-trivial = at least one response differing from the "
        "cached view / one fault")
ASSUMPTIONS = ["a response never names a leader that its own broker list omits (real brokers answer leader=-1 then)",
               "topics absent from a full refresh are neither required to stay nor to vanish",
               "'closed' = by the end of the reactor event that merged the response the old connection has been asked "
               "to close (or the pending connect was cancelled), the node is gone from client.clients, and that broker "
               "client never dials again",
               "recovery budget: sends issued after the last fault succeed using at most max_req_attempts produce "
               "attempts; consumers have delivered the whole log within 40 virtual seconds of the last fault",
               "at least one bootstrap address keeps answering (otherwise no client could re-resolve)"]
REACH_MIN = {"responses_compared": {"quick": 1500, "thorough": 21093},
             "view_changed_by_response": {"quick": 500, "thorough": 7031},
             "full_refresh_with_removed_broker": {"quick": 40, "thorough": 562},
             "connections_closed_for_removed": {"quick": 15, "thorough": 210},
             "dials_checked": {"quick": 400, "thorough": 5625},
             "readdressed_dials": {"quick": 10, "thorough": 140},
             "invalidations_checked": {"quick": 150, "thorough": 2109},
             "group_invalidations_checked": {"quick": 25, "thorough": 600},
             "group_refresh_without_coordinator": {"quick": 15, "thorough": 400},
             "group_coordinator_readdressed": {"quick": 15, "thorough": 400},
             "recover_sends_after_faults": {"quick": 150, "thorough": 2109},
             "recover_faults": {"quick": 100, "thorough": 1406}}

TOPICS = ["m0", "m1", "m2", "m3", "m4"]


def cases(tier, seed):
    out = []
    n = {"quick": (500, 540, 240), "thorough": (12000, 12000, 6000)}[tier]
    for i in range(n[0]):
        out.append(dict(kind="mirror", seed=seed * 1000003 + 800000 + i))
    for i in range(n[1]):
        out.append(dict(kind="invalidate", seed=seed * 1000003 + 830000 + i, idx=i))
    for i in range(n[2]):
        out.append(dict(kind="recover", seed=seed * 1000003 + 860000 + i))
    for i in range({"quick": 160, "thorough": 4000}[tier]):
        out.append(dict(kind="invalidate_group", seed=seed * 1000003 + 890000 + i, idx=i))
    return out


# ------------------------------------------------------------------------------------------------------
# shared instrumentation: every metadata response this client merges is compared with its view
# ------------------------------------------------------------------------------------------------------

class Mirror(object):
    """Harness-side wrappers on one KafkaClient (no /repo hooks)."""

    def __init__(self, res, w, client, bootstrap):
        from afkak.common import TopicAndPartition
        self.TP = TopicAndPartition
        self.res = res
        self.w = w
        self.client = client
        self.bootstrap = set(bootstrap)
        self.served = {}
        self.cur = [None]
        self.latest_addr = {}
        self.closed = {}  # id(broker client) -> (node, time)
        self.in_merge = False
        self.n_compared = 0
        self.words = []
        w.cluster.on_event.append(self._on_srv)
        w.net.connect_hooks.append(self._on_connect)
        orig_unaware = client._send_broker_unaware_request

        def unaware(requestId, request, *a, **kw):
            d = orig_unaware(requestId, request, *a, **kw)

            def note(resp):
                # the same request (same correlation id) may have been offered to several brokers in turn: pair
                # the reply with the recorded response that has these very bytes
                crc = (zlib.crc32(resp) & 0xffffffff) if isinstance(resp, (bytes, bytearray)) else None
                self.cur[0] = (requestId, crc)
                return resp
            d.addCallback(note)
            return d
        client._send_broker_unaware_request = unaware
        orig_merge = client._merge_topic_metadata

        def merge(brokers, topics, fetched_all):
            corr, crc = self.cur[0] if self.cur[0] is not None else (None, None)
            self.cur[0] = None
            pre = self.view()
            pre_clients = dict(client.clients)
            pre_conns = {}
            for node, bc in pre_clients.items():
                proto = getattr(bc, "proto", None)
                conn = proto.transport.conn if proto is not None and proto.transport is not None else None
                att = [a for a in w.net.pending_attempts if a.factory is bc]
                pre_conns[node] = (conn, att)
            self.in_merge = True
            raised = None
            try:
                return orig_merge(brokers, topics, fetched_all)
            except BaseException as e:
                raised = e
                raise
            finally:
                self.in_merge = False
                ev = None
                for cand in self.served.get(corr, ()):
                    if cand.get("reply_crc") == crc:
                        ev = cand
                if ev is None:
                    res.hit("merge_without_recorded_response")
                else:
                    try:
                        self.compare(ev, pre, pre_clients, pre_conns, fetched_all, raised)
                    except Exception as e:  # a harness fault must not leak into the client under test
                        import traceback
                        res.inconclusive.append("monitor failed: %r %s" % (e, traceback.format_exc()[-300:]))
        client._merge_topic_metadata = merge

    def _on_srv(self, ev):
        if ev.get("api") == "Metadata" and ev.get("result") is not None:
            self.served.setdefault(ev["corr"], []).append(ev)

    def _on_connect(self, att):
        f = att.factory
        if not hasattr(f, "node_id") or not hasattr(f, "updateMetadata"):
            return
        if f not in self.client.clients.values() and id(f) not in self.closed:
            return  # another client's
        res = self.res
        if id(f) in self.closed:
            res.violate("closed/removed-broker-client-dials-again", "the broker client for node %d, closed because a "
                        "full refresh no longer listed it, made a connection attempt afterwards" % f.node_id,
                        host=att.host, port=att.port)
            return
        if self.in_merge:
            return
        want = self.latest_addr.get(f.node_id)
        if want is None:
            return
        res.hit("dials_checked")
        if want[2]:
            res.hit("readdressed_dials")
        if (att.host, att.port) != want[:2]:
            res.violate("address/dials-superseded-address", "node %d was last advertised at %s:%d but its broker "
                        "client dialled %s:%d" % (f.node_id, want[0], want[1], att.host, att.port))
        res.ob("dial_uses_latest_address")

    def view(self):
        c = self.client
        v = {}
        for t, parts in c.topic_partitions.items():
            v.setdefault(t, {})["parts"] = list(parts)
        for tp, b in c.topics_to_brokers.items():
            v.setdefault(tp.topic, {}).setdefault("leaders", {})[tp.partition] = (None if b is None else tuple(b))
        for t, e in c.topic_errors.items():
            v.setdefault(t, {})["error"] = e
        return v

    def compare(self, ev, pre, pre_clients, pre_conns, fetched_all, raised):
        res, c = self.res, self.client
        self.n_compared += 1
        res.hit("responses_compared")
        brokers = {b[0]: (b[1], b[2]) for b in ev["result"]["brokers"]}
        topics = ev["result"]["topics"]
        requested = ev["req"]["topics"]
        if raised is not None:
            res.violate("mirror/merge-raised", "merging a metadata response raised %s: %s" % (type(raised).__name__,
                                                                                              raised),
                        response=dict(brokers=ev["result"]["brokers"], topics=topics))
            return
        post = self.view()
        covered = set()
        changed = False
        for (terr, name, parts) in topics:
            covered.add(name)
            want_parts = sorted(p[1] for p in parts)
            got = post.get(name, {})
            if got.get("parts", []) != want_parts:
                res.violate("mirror/partitions-differ", "topic %r: response lists partitions %r, client holds %r"
                            % (name, want_parts, got.get("parts")), requested=requested)
            want_leaders = {}
            for (perr, p, leader, reps, isr) in parts:
                want_leaders[p] = None if leader == -1 else (leader,) + brokers.get(leader, ("?", -1))
            if got.get("leaders", {}) != want_leaders:
                g = got.get("leaders", {})
                stale = sorted(set(g) - set(want_leaders))
                key = "mirror/stale-partition-entry-kept" if stale else "mirror/leader-differs"
                res.violate(key, "topic %r: response says leaders %r, client holds %r" % (name, want_leaders, g),
                            requested=requested)
            if c.metadata_error_for_topic(name) != terr:
                res.violate("mirror/topic-error-differs", "topic %r: response error %d, client reports %d"
                            % (name, terr, c.metadata_error_for_topic(name)))
            if pre.get(name) != post.get(name):
                changed = True
            res.ob("covered_topic_equals_response")
        for name in set(pre) | set(post):
            if name in covered:
                continue
            if fetched_all and name not in covered:
                continue  # a topic absent from a full refresh: neither demanded to stay nor to go
            if pre.get(name) != post.get(name):
                res.violate("mirror/other-topic-touched", "topic %r is not in the response (%r) yet its cached state "
                            "changed from %r to %r" % (name, sorted(covered), pre.get(name), post.get(name)))
            res.ob("other_topic_untouched")
        for node, (h, p) in brokers.items():
            got = c._brokers.get(node)
            if got is None or tuple(got) != (node, h, p):
                res.violate("mirror/broker-address-differs", "response says node %d is at %s:%d, client holds %r"
                            % (node, h, p, got))
            old = self.latest_addr.get(node)
            moved = old is not None and old[:2] != (h, p)
            if moved:
                changed = True
            self.latest_addr[node] = (h, p, moved or (old[2] if old else False))
            res.ob("broker_address_equals_response")
        if fetched_all and brokers:
            gone = [n for n in pre_clients if n not in brokers]
            if gone:
                res.hit("full_refresh_with_removed_broker")
            for n in gone:
                bc = pre_clients[n]
                conn, atts = pre_conns[n]
                if c.clients.get(n) is bc:
                    res.violate("closed/removed-broker-still-a-client", "full refresh without node %d, yet its "
                                "broker client is still in client.clients" % n)
                if conn is not None and conn.is_open and not conn.client_closing:
                    res.violate("closed/connection-to-removed-broker-left-open", "full refresh without node %d, yet "
                                "the connection to it was not closed" % n, conn=conn.id)
                elif conn is not None:
                    res.hit("connections_closed_for_removed")
                for a in atts:
                    if not a.cancelled and a in self.w.net.pending_attempts:
                        res.violate("closed/connect-to-removed-broker-left-pending", "full refresh without node %d, "
                                    "yet its pending connection attempt was not cancelled" % n)
                self.closed[id(bc)] = (n, self.w.clock.seconds(), bc)
                res.ob("removed_broker_closed")
            if gone:
                changed = True
        if changed:
            res.hit("view_changed_by_response")


def hidden_override(cl, hidden):
    def override(ev):
        brokers, topics = cl.metadata_view(ev["req"]["topics"])
        if not hidden:
            return brokers, topics
        brokers = [b for b in brokers if b[0] not in hidden]
        out = []
        for (terr, name, parts) in topics:
            out.append((terr, name, [((perr or ERR_LEADER_NOT_AVAILABLE) if leader in hidden else perr, p,
                                      -1 if leader in hidden else leader, reps, [r for r in isr if r not in hidden])
                                     for (perr, p, leader, reps, isr) in parts]))
        return brokers, out
    return override


def eat(d):
    d.addErrback(lambda f: None)
    return d


# ------------------------------------------------------------------------------------------------------
# (a) mirror
# ------------------------------------------------------------------------------------------------------

def run_mirror(spec, res):
    from afkak.common import FetchRequest, OffsetRequest
    rng = random.Random(spec["seed"])
    nb = rng.choice((2, 3, 3, 4))
    w = World(spec["seed"], brokers=range(1, nb + 1), latency=rng.choice((0.0, 0.002, 0.02)),
              chunk=rng.choice(("whole", "whole", "random", "coalesce")))
    cl = w.cluster
    hidden = set()
    cl.metadata_override = hidden_override(cl, hidden)
    for name in TOPICS[:rng.choice((1, 2, 3))]:
        cl.add_topic(name, {p: rng.randint(1, nb) for p in range(rng.choice((1, 2, 4)))})
    word = []
    with Traps() as traps:
        client = w.client(timeout=rng.choice((500, 2000)))
        mon = Mirror(res, w, client, [(b.host, b.port) for b in cl.brokers.values()])
        base = w.clock.seconds()
        next_node = [nb + 1]
        gen = [0]

        def up_nodes():
            return [n for n, b in cl.brokers.items() if b.up]

        def mutate():
            r = rng.random()
            exist = sorted(cl.topic_partitions)
            if r < 0.10:
                cand = [t for t in TOPICS if t not in cl.topic_partitions]
                if cand:
                    t = rng.choice(cand)
                    cl.add_topic(t, {p: rng.choice(sorted(cl.brokers)) for p in range(rng.choice((1, 2, 3, 6)))})
                    cl.topic_errors.pop(t, None)
                    return "T+"
            elif r < 0.18 and exist:
                t = rng.choice(exist)
                del cl.topic_partitions[t]
                return "T-"
            elif r < 0.28 and exist:
                t = rng.choice(exist)
                p = (max(cl.topic_partitions[t]) + 1) if cl.topic_partitions[t] else 0
                from ..simkafka import PartitionLog
                node = rng.choice(sorted(cl.brokers))
                if (t, p) not in cl.logs:
                    cl.logs[(t, p)] = PartitionLog(t, p)
                cl.leaders[(t, p)] = node
                cl.replicas[(t, p)] = [node]
                cl.topic_partitions[t] = sorted(cl.topic_partitions[t] + [p])
                return "P+"
            elif r < 0.36 and exist:
                t = rng.choice(exist)
                if cl.topic_partitions[t]:
                    cl.topic_partitions[t] = sorted(rng.sample(cl.topic_partitions[t],
                                                                len(cl.topic_partitions[t]) - 1))
                    return "P-"
            elif r < 0.46 and exist:
                t = rng.choice(exist)
                cl.topic_errors[t] = rng.choice((0, 5, 3, 17, 29))
                if rng.random() < 0.4 and cl.topic_errors[t]:
                    cl.topic_partitions[t] = []
                return "E"
            elif r < 0.62 and exist:
                t = rng.choice(exist)
                if cl.topic_partitions[t]:
                    p = rng.choice(cl.topic_partitions[t])
                    cl.leaders[(t, p)] = rng.choice(sorted(cl.brokers) + [-1])
                    return "L"
            elif r < 0.72:
                cand = [n for n in cl.brokers if n not in hidden]
                if len(cand) > (0 if rng.random() < 0.05 else 1):
                    hidden.add(rng.choice(cand))
                    return "H+"
            elif r < 0.78 and hidden:
                hidden.discard(rng.choice(sorted(hidden)))
                return "H-"
            elif r < 0.84 and next_node[0] < 9:
                cl.add_broker(next_node[0])
                next_node[0] += 1
                return "B+"
            elif r < 0.92:
                cand = [n for n in cl.brokers if n != 1]
                if cand:
                    n = rng.choice(cand)
                    gen[0] += 1
                    cl.readdress(n, "moved%d-%d.sim" % (n, gen[0]), 7000 + gen[0], sever=rng.random() < 0.6)
                    return "A"
            else:
                cand = [n for n in cl.brokers if n != 1]
                if cand:
                    n = rng.choice(cand)
                    if cl.brokers[n].up:
                        cl.stop_broker(n, sever=rng.random() < 0.7)
                        return "S-"
                    cl.start_broker(n)
                    return "S+"
            return ""

        def act():
            r = rng.random()
            exist = sorted(cl.topic_partitions)
            known = sorted(client.topic_partitions)
            if r < 0.3:
                eat(client.load_metadata_for_topics())
                return "F"
            if r < 0.62:
                k = rng.choice((1, 1, 2, 3))
                names = rng.sample(TOPICS, k)
                eat(client.load_metadata_for_topics(*names))
                return "R%d" % k
            cand = [(t, p) for t in known for p in client.topic_partitions[t]]
            if cand:
                picks = rng.sample(cand, min(len(cand), rng.choice((1, 2, 4))))
                if r < 0.82:
                    eat(client.send_offset_request([OffsetRequest(t, p, -1, 1) for t, p in picks]))
                    return "o"
                eat(client.send_fetch_request([FetchRequest(t, p, 0, 1024) for t, p in picks], max_wait_time=20))
                return "f"
            eat(client.load_metadata_for_topics(*exist[:1]))
            return "R1"
        n_steps = rng.choice((8, 14, 22))
        for _ in range(n_steps):
            for _m in range(rng.choice((0, 1, 1, 2, 3))):
                word.append(mutate())
            word.append(act())
            if rng.random() < 0.3:
                word.append(act())  # overlapping
            w.run(until=w.clock.seconds() + rng.choice((0.0, 0.01, 0.3, 1.2, 3.0)))
        # settle: everything visible and up, one full refresh, the view must equal the cluster's state
        hidden.clear()
        for n, b in cl.brokers.items():
            if not b.up:
                cl.start_broker(n)
        w.run(until=w.clock.seconds() + 3.0)
        eat(client.load_metadata_for_topics())
        w.run(until=w.clock.seconds() + 3.0)
        try:
            eat(client.close())
        except Exception as e:
            res.ev("close_raised_%s" % type(e).__name__)
        w.run(until=w.clock.seconds() + 2.0)
    for (t, label, typ, tb) in w.clock.errors:
        res.violate("harness/exception-escaped-a-reactor-event:%s" % typ, "%s in %s" % (typ, label), tb=tb[-600:])
    res.n_sub += 1
    if mon.n_compared == 0:
        res.inconclusive.append("no metadata response was merged")
    ws = "".join(x for x in word if x)
    res.sigs.add(sig("mirror", ws))
    if res.sample is None:
        res.sample = dict(kind="mirror", word=ws, responses_compared=mon.n_compared,
                          final_view={k: v for k, v in list(mon.view().items())[:3]})


# ------------------------------------------------------------------------------------------------------
# (b) invalidation is visible on the wire
# ------------------------------------------------------------------------------------------------------

FAULTS = ["code6", "code3", "moved", "drop-before", "drop-after", "stopped", "silent", "code6-behind-other-error",
          "code3-behind-other-error"]
APIS = ["produce", "fetch", "offsets"]
WIRE = {"produce": "Produce", "produce0": "Produce", "fetch": "Fetch", "offsets": "ListOffsets"}


def run_invalidate(spec, res):
    from afkak import create_message
    from afkak.common import FetchRequest, OffsetRequest, ProduceRequest
    rng = random.Random(spec["seed"])
    i = spec["idx"]
    fault = FAULTS[i % len(FAULTS)]
    api1 = (APIS + ["produce0"])[(i // len(FAULTS)) % 4]
    api2 = APIS[(i // (len(FAULTS) * 4)) % 3]
    if api1 == "produce0":
        fault = "stopped"  # without a reply expected only a send that cannot be made fails
    foe = rng.random() < 0.6
    lat = rng.choice((0.0, 0.002, 0.02))
    if fault.startswith("drop"):
        lat = 0.02  # the broker client reconnects at once: without latency that loop would not advance time
    w = World(spec["seed"], brokers=(1, 2, 3), latency=lat)
    cl = w.cluster
    cl.add_topic("ia", {0: 1, 1: 2, 2: 3, 3: 1})
    cl.add_topic("ib", {0: 2, 1: 3})
    for key in cl.logs:
        cl.logs[key].append([(None, b"seed-%d" % k, 0) for k in range(3)])

    def call(api, tps, fail_on_error):
        if api in ("produce", "produce0"):
            kw = dict(acks=0) if api == "produce0" else {}
            return client.send_produce_request([ProduceRequest(t, p, [create_message(b"v-%d-%d" % (p, rng.randint(0, 99)))])
                                                for t, p in tps], fail_on_error=fail_on_error, **kw)
        if api == "fetch":
            return client.send_fetch_request([FetchRequest(t, p, 0, 4096) for t, p in tps], max_wait_time=20,
                                             fail_on_error=fail_on_error)
        return client.send_offset_request([OffsetRequest(t, p, -1, 1) for t, p in tps], fail_on_error=fail_on_error)

    with Traps():
        client = w.client(timeout=1000)
        mon = Mirror(res, w, client, [])
        eat(client.load_metadata_for_topics("ia", "ib"))
        w.run(until=w.clock.seconds() + 1.0)
        target = ("ia", rng.choice((0, 1, 2, 3)))
        leader = cl.leaders[target]
        others = [tp for tp in cl.logs if tp != target]
        extra = rng.sample(others, rng.choice((0, 0, 1, 2, 3)))
        tps = extra + [target]
        rng.shuffle(tps)
        wire1 = WIRE[api1]
        if fault in ("code6", "code3"):
            cl.faults.add(dict(api=wire1, broker=leader, nth=[0],
                               action=dict(kind="ok", apply=False, perr={"%s/%d" % target: 6 if fault == "code6" else 3})))
        elif fault.endswith("behind-other-error"):
            # another partition of the same call, EARLIER in the payload list, carries an unrelated error
            other = rng.choice([tp for tp in cl.logs if tp != target])
            tps = [other] + [tp for tp in tps if tp not in (other, target)] + [target]
            code = 6 if fault.startswith("code6") else 3
            for b in (1, 2, 3):
                cl.faults.add(dict(api=wire1, broker=b, nth=[0], action=dict(kind="ok", apply=False, perr={
                    "%s/%d" % target: code, "%s/%d" % other: rng.choice((7, 2, 9, 19))})))
        elif fault == "moved":
            cl.move_leader(target[0], target[1], rng.choice([n for n in (1, 2, 3) if n != leader]))
        elif fault == "drop-before":
            cl.faults.add(dict(api=wire1, broker=leader, until=w.clock.seconds() + 1.05,
                               action=dict(kind="drop", apply=False)))
        elif fault == "drop-after":
            cl.faults.add(dict(api=wire1, broker=leader, until=w.clock.seconds() + 1.05,
                               action=dict(kind="drop", apply=True)))
        elif fault == "stopped":
            cl.stop_broker(leader)
        elif fault == "silent":
            cl.faults.add(dict(api=wire1, broker=leader, nth=[0], action=dict(kind="silent", apply=rng.random() < 0.5)))
        h0 = len(cl.history)
        out1 = []
        d1 = call(api1, tps, foe)
        d1.addBoth(out1.append)
        w.run(until=w.clock.seconds() + 4.0, stop=lambda: bool(out1))
        if not out1:
            res.inconclusive.append("first call did not complete")
            return
        h1 = len(cl.history)
        corr_floor = client._next_id()  # frames of the first call still in flight carry smaller ids
        if fault == "stopped":
            if rng.random() < 0.5:
                cl.start_broker(leader)
            else:
                cl.move_leader(target[0], target[1], rng.choice([n for n in (1, 2, 3) if n != leader]))
        # the second call, for the same topic
        tp2 = [target] if rng.random() < 0.6 else [("ia", rng.choice((0, 1, 2, 3)))]
        out2 = []
        w.run(until=w.clock.seconds() + rng.choice((0.0, 0.05)))
        d2 = call(api2, tp2, True)
        d2.addBoth(out2.append)
        w.run(until=w.clock.seconds() + 4.0, stop=lambda: bool(out2))
        # where the faulty answer / failed send happened: the first data request of call 1 towards the target
        mine = [(k, e) for k, e in enumerate(cl.history) if k >= h0 and "req" in e]
        first_data = [k for k, e in mine if e["api"] == wire1 and k < h1]
        res.hit("invalidations_checked")
        # was the target's answer one that must invalidate?
        answered = None
        for k, e in mine:
            if e["api"] == wire1 and k < h1 and e.get("result"):
                for r_ in e["result"]:
                    if (r_["topic"], r_["partition"]) == target and e["replied"] == "sent":
                        answered = r_["error"]
        from afkak.common import FailedPayloadsError
        failed_send = hasattr(out1[0], "check") and bool(out1[0].check(FailedPayloadsError))
        if fault == "stopped" and not any(e["api"] == wire1 and k < h1 and e["broker"] == leader for k, e in mine):
            failed_send = True  # nothing for the target ever reached its (stopped) leader, whatever was reported
        must = failed_send or answered in (3, 6)
        if not must:
            res.hit("fault_did_not_reach_the_target")
            res.inconclusive.append("the planned answer did not reach the target partition (%s)" % fault)
            return
        start = first_data[0] if first_data else h0
        second_data = [k for k, e in mine if k >= h1 and e["corr"] > corr_floor and e["api"] == WIRE[api2]
                       and "ia" in e["topics"]]
        end = second_data[0] if second_data else len(cl.history)
        meta = [k for k, e in mine if start < k < end and e["api"] == "Metadata"
                and (not e["req"]["topics"] or "ia" in e["req"]["topics"]) and e["replied"] == "sent"]
        if not meta:
            res.violate("invalidate/next-request-not-re-resolved/%s" % fault.replace("code6", "not-leader").replace(
                "code3", "unknown-partition"), "after %s on %s the next %s request for topic 'ia' reached the wire "
                "without a metadata request for it in between" % (fault, api1, api2), foe=foe,
                first_outcome=repr(out1[0])[:200], payloads=tps,
                wire=[(e["api"], e["broker"], list(e["topics"])) for k, e in mine][-14:])
        res.ob("re_resolved_before_next_request")
        # and the second request, when it was sent, went where that metadata said
        if second_data and meta:
            e2 = cl.history[second_data[0]]
            mresp = cl.history[meta[-1]]["result"]
            leaders = {}
            for (terr, name, parts) in mresp["topics"]:
                for (perr, p, ld, reps, isr) in parts:
                    leaders[(name, p)] = ld
            for t_ in e2["req"]["topics"]:
                for p_ in t_["partitions"]:
                    want = leaders.get((t_["topic"], p_["partition"]))
                    if want is not None and want != e2["broker"]:
                        res.violate("invalidate/next-request-to-stale-leader", "the refreshed metadata names node %d "
                                    "for %s/%d, the request went to node %d" % (want, t_["topic"], p_["partition"],
                                                                                 e2["broker"]))
            res.ob("next_request_follows_refreshed_metadata")
        eat(client.close())
        w.run(until=w.clock.seconds() + 1.0)
    res.n_sub += 1
    res.sigs.add(sig("invalidate", fault, api1, api2, foe, len(tps)))
    if res.sample is None:
        res.sample = dict(kind="invalidate", fault=fault, first=api1, second=api2, fail_on_error=foe,
                          wire=[(e["api"], e["broker"], list(e["topics"]), e["replied"]) for k, e in mine][:12])


def run_invalidate_group(spec, res):
    """The group's coordinator is cached routing too: after a failed send to it, the next request for the group is
    preceded by a coordinator lookup and goes where that lookup says."""
    from afkak.common import OffsetCommitRequest, OffsetFetchRequest
    rng = random.Random(spec["seed"])
    i = spec["idx"]
    fault = ("silent", "stopped", "drop-before", "silent")[i % 4]
    api1 = ("commit", "offset_fetch")[(i // 4) % 2]
    api2 = ("commit", "offset_fetch")[(i // 8) % 2]
    lat = 0.02 if fault.startswith("drop") else rng.choice((0.0, 0.002, 0.02))
    w = World(spec["seed"], brokers=(1, 2, 3), latency=lat)
    cl = w.cluster
    cl.add_topic("ig", {0: 1, 1: 2})
    group = "gi%d" % (i % 5)
    coord = cl.coordinator_for(group)

    def call(api):
        if api == "commit":
            return client.send_offset_commit_request(group, [OffsetCommitRequest("ig", 0, rng.randint(1, 50), -1, None)])
        return client.send_offset_fetch_request(group, [OffsetFetchRequest("ig", 0)])
    wire = {"commit": "OffsetCommit", "offset_fetch": "OffsetFetch"}
    with Traps():
        client = w.client(timeout=1000)
        eat(client.load_metadata_for_topics("ig"))
        w.run(until=w.clock.seconds() + 1.0)
        out0 = []
        call("commit").addBoth(out0.append)  # a first, healthy exchange: the coordinator is known and cached
        w.run(until=w.clock.seconds() + 2.0, stop=lambda: bool(out0))
        if not out0 or hasattr(out0[0], "check"):
            res.inconclusive.append("the healthy first exchange with the coordinator failed")
            return
        variant = ("plain", "plain", "refresh_without_coordinator", "coordinator_readdressed",
                   "retry_from_the_errback")[(i // 16) % 5]
        if variant == "retry_from_the_errback":
            # a lookup that fails, and an application that asks again from inside the errback: the second question is
            # a new lookup on the wire, not the old answer handed out once more
            res.hit("group_lookup_retried_from_errback")
            g2 = group + "-r"
            cl.faults.add(dict(api="FindCoordinator", nth=[0], after=w.clock.seconds(),
                               action=dict(kind="error", code=rng.choice((15, 16)))))
            h = len(cl.history)
            outs = []

            def again(f):
                d2 = client.load_coordinator_for_group(g2)
                d2.addBoth(outs.append)
                return None
            client.load_coordinator_for_group(g2).addCallbacks(outs.append, again)
            w.run(until=w.clock.seconds() + 4.0, stop=lambda: bool(outs))
            looks = [e for e in cl.history[h:] if "req" in e and e["api"] == "FindCoordinator" and
                     e["req"].get("group") == g2]
            if len(looks) < 2 or not outs or hasattr(outs[0], "check"):
                res.violate("coordinator/lookup-repeated-from-the-errback-not-sent", "a coordinator lookup failed and "
                            "was asked again from inside the errback: %d lookup request(s) reached a broker and the "
                            "second question ended as %r" % (len(looks), outs[0] if outs else None))
            res.ob("repeated_lookup_is_a_new_lookup")
            eat(client.close())
            w.run(until=w.clock.seconds() + 1.0)
            res.n_sub += 1
            return
        if variant == "refresh_without_coordinator":
            # a full refresh whose answer does not list the coordinator's broker (it is restarting): its client is
            # closed, but the next group request must still get to the coordinator the client knows
            res.hit("group_refresh_without_coordinator")
            cl.metadata_override = lambda ev: ([b for b in cl.metadata_view(())[0] if b[0] != coord],
                                               cl.metadata_view(ev["req"]["topics"])[1])
            eat(client.load_metadata_for_topics())
            w.run(until=w.clock.seconds() + 1.0)
            cl.metadata_override = None
            h = len(cl.history)
            out = []
            call(api2).addBoth(out.append)
            w.run(until=w.clock.seconds() + 4.0, stop=lambda: bool(out))
            reached = [e for e in cl.history[h:] if "req" in e and e["api"] == wire[api2] and e["broker"] == coord]
            if not out or hasattr(out[0], "check") or not reached:
                res.violate("coordinator/group-request-did-not-reach-the-coordinator-after-a-refresh-omitting-it",
                            "the group's coordinator (node %d) was left out of a full metadata refresh; the next %s "
                            "request for the group %s" % (coord, api2, "never completed" if not out else
                                                          "ended as %r" % (out[0],)), reached=len(reached))
            res.ob("group_request_reaches_coordinator_after_refresh")
            eat(client.close())
            w.run(until=w.clock.seconds() + 1.0)
            res.n_sub += 1
            return
        if variant == "coordinator_readdressed":
            # the coordinator's broker comes back at another address; the first answer to say so is a coordinator
            # lookup.  The group request after that lookup has to be dialled to the address the lookup gave.
            res.hit("group_coordinator_readdressed")
            old = (cl.brokers[coord].host, cl.brokers[coord].port)
            cl.readdress(coord, "moved%d.sim" % coord, 7100 + coord)
            out = []
            call(api1).addBoth(out.append)  # meets the dead address: fails, the cached routing goes
            w.run(until=w.clock.seconds() + 4.0, stop=lambda: bool(out))
            w.run(until=w.clock.seconds() + 0.3)
            h = len(cl.history)
            a0 = len(w.net.attempts)
            out2 = []
            call(api2).addBoth(out2.append)
            w.run(until=w.clock.seconds() + 6.0, stop=lambda: bool(out2))
            looked = [e for e in cl.history[h:] if "req" in e and e["api"] == "FindCoordinator" and e["replied"] == "sent"]
            # (the answer reaches the client up to one network latency after the broker sent it)
            stale = [a for a in w.net.attempts[a0:] if (a.host, a.port) == old and looked and
                     a.t > looked[-1]["reply_t"] + 0.03]
            ok2 = bool(out2) and not hasattr(out2[0], "check")
            if looked and (stale or not ok2):
                res.violate("address/coordinator-lookup-address-not-applied", "a coordinator lookup named node %d at "
                            "%s:%d; afterwards %s" % (coord, cl.brokers[coord].host, cl.brokers[coord].port,
                                                      ("the superseded address %s:%d was dialled %d time(s)" % (
                                                          old[0], old[1], len(stale))) if stale else
                                                      "the group request ended as %r" % (out2[0] if out2 else None,)))
            res.ob("coordinator_address_from_lookup_applied")
            eat(client.close())
            w.run(until=w.clock.seconds() + 1.0)
            res.n_sub += 1
            return
        if fault == "silent":
            cl.faults.add(dict(api=wire[api1], broker=coord, nth=[0], action=dict(kind="silent", apply=False)))
        elif fault == "drop-before":
            cl.faults.add(dict(api=wire[api1], broker=coord, until=w.clock.seconds() + 1.05,
                               action=dict(kind="drop", apply=False)))
        else:
            cl.stop_broker(coord)
        h0 = len(cl.history)
        out1 = []
        call(api1).addBoth(out1.append)
        w.run(until=w.clock.seconds() + 4.0, stop=lambda: bool(out1))
        if not out1:
            res.inconclusive.append("first call did not complete")
            return
        h1 = len(cl.history)
        if not hasattr(out1[0], "check"):
            res.hit("group_fault_overcome_by_the_broker_client")
            res.n_sub += 1
            return
        res.hit("group_invalidations_checked")
        moved = rng.random() < 0.6
        if moved:
            cl.move_coordinator(group, rng.choice([n for n in (1, 2, 3) if n != coord]))
        if fault == "stopped" and (not moved or rng.random() < 0.5):
            cl.start_broker(coord)
        corr_floor = client._next_id()
        out2 = []
        w.run(until=w.clock.seconds() + rng.choice((0.0, 0.05)))
        call(api2).addBoth(out2.append)
        w.run(until=w.clock.seconds() + 6.0, stop=lambda: bool(out2))
        mine = [(k, e) for k, e in enumerate(cl.history) if k >= h1 and "req" in e and e["corr"] > corr_floor]
        second = [k for k, e in mine if e["api"] == wire[api2] and e["req"].get("group") == group]
        end = second[0] if second else len(cl.history)
        looks = [k for k, e in mine if k < end and e["api"] == "FindCoordinator" and e["req"].get("group") == group
                 and e["replied"] == "sent"]
        if second and not looks:
            res.violate("invalidate/next-group-request-without-coordinator-lookup/%s" % fault, "after a failed send "
                        "(%s) to the coordinator of %r the next %s request for the group reached the wire without a "
                        "coordinator lookup in between" % (fault, group, api2), first_outcome=repr(out1[0])[:160],
                        coordinator_moved=moved, wire=[(e["api"], e["broker"]) for k, e in mine][:10])
        res.ob("coordinator_re_resolved_before_next_request")
        if second and looks:
            ans = cl.history[looks[-1]].get("result") or {}
            want = ans.get("node") if isinstance(ans, dict) else None
            got = cl.history[second[0]]["broker"]
            if want is not None and ans.get("error", 0) == 0 and want != got:
                res.violate("invalidate/next-group-request-to-stale-coordinator", "the lookup names node %r, the request "
                            "went to node %r" % (want, got))
            res.ob("next_group_request_follows_the_lookup")
        eat(client.close())
        w.run(until=w.clock.seconds() + 1.0)
    res.n_sub += 1
    res.sigs.add(sig("invalidate_group", fault, api1, api2, moved))


# ------------------------------------------------------------------------------------------------------
# (c) bounded recovery with a producer and consumers
# ------------------------------------------------------------------------------------------------------

def run_recover(spec, res):
    from afkak import OFFSET_EARLIEST, Consumer, Producer
    rng = random.Random(spec["seed"])
    nb = rng.choice((2, 3, 4))
    w = World(spec["seed"], brokers=range(1, nb + 1), latency=rng.choice((0.0, 0.002, 0.02)))
    cl = w.cluster
    P = rng.choice((1, 2, 3))
    topic = "rt"
    cl.add_topic(topic, {p: rng.randint(1, nb) for p in range(P)})
    A = rng.choice((6, 8, 10))
    delivered = {p: [] for p in range(P)}
    sends = []
    word = []
    with Traps() as traps:
        shared = rng.random() < 0.5
        client_p = w.client(timeout=1000)
        client_c = client_p if shared else w.client(timeout=1000)
        mon = Mirror(res, w, client_p, [])
        if not shared:
            Mirror(res, w, client_c, [])
        batch = rng.random() < 0.4
        kw = dict(batch_send=True, batch_every_n=rng.choice((1, 3)), batch_every_t=0.2) if batch else {}
        producer = Producer(client_p, req_acks=1, max_req_attempts=A, retry_interval=0.1, **kw)
        consumers = []
        cstarts = []

        def make_proc(p):
            def proc(consumer, msgs):
                for m in msgs:
                    delivered[p].append((m.offset, m.message.value))
            return proc
        for p in range(P):
            c = Consumer(client_c, topic, p, make_proc(p), fetch_max_wait_time=100, request_retry_init_delay=0.1,
                         request_retry_max_delay=0.5, auto_offset_reset=OFFSET_EARLIEST)
            consumers.append(c)
            rec = []
            c.start(OFFSET_EARLIEST).addBoth(rec.append)
            cstarts.append(rec)
        base = w.clock.seconds()
        # produce-attempt spy at the producer -> client boundary
        attempts = {}
        orig_spr = client_p.send_produce_request

        def spr(payloads=None, *a, **k):
            for pl in payloads or ():
                for m in pl.messages:
                    attempts[m.value] = attempts.get(m.value, 0) + 1
            return orig_spr(payloads, *a, **k)
        client_p.send_produce_request = spr

        def do_send(tag):
            s = len(sends)
            val = b"r%d-%s" % (s, tag.encode())
            rec = dict(s=s, value=val, t=w.clock.seconds(), tag=tag, fires=[])
            sends.append(rec)
            d = producer.send_messages(topic, msgs=[val])
            d.addBoth(lambda r: rec["fires"].append((w.clock.seconds(), r)))
        # fault sequence
        t = 0.2
        nf = rng.choice((1, 2, 3, 4, 6))
        t_last = 0.0
        gen = [0]
        for _ in range(nf):
            t += rng.choice((0.05, 0.3, 1.0, 2.5))
            kind = rng.choice(("move", "move", "restart", "restart-moving", "readdress"))
            word.append(kind[0] if kind != "restart-moving" else "M")

            def fire(kind=kind):
                res.hit("recover_faults")
                ups = [n for n, b in cl.brokers.items() if b.up]
                if kind == "move":
                    p = rng.randrange(P)
                    cand = [n for n in ups if n != cl.leaders[(topic, p)]]
                    if cand:
                        cl.move_leader(topic, p, rng.choice(cand))
                elif kind in ("restart", "restart-moving"):
                    cand = [n for n in ups]
                    if len(cand) > 1:
                        n = rng.choice(cand)
                        cl.stop_broker(n)
                        if kind == "restart-moving":
                            for p in range(P):
                                if cl.leaders[(topic, p)] == n:
                                    cl.move_leader(topic, p, rng.choice([x for x in cand if x != n]))
                else:
                    cand = [n for n in cl.brokers if n != 1]
                    if cand:
                        n = rng.choice(cand)
                        gen[0] += 1
                        cl.readdress(n, "new%d-%d.sim" % (n, gen[0]), 7100 + gen[0], sever=rng.random() < 0.7)
            w.clock.labelled(t, "fault." + kind, fire)
            t_last = max(t_last, t)
            if kind.startswith("restart"):
                dt = rng.choice((0.3, 1.5, 3.0))

                def restart():
                    for n, b in cl.brokers.items():
                        if not b.up:
                            cl.start_broker(n)
                w.clock.labelled(t + dt, "fault.restart_done", restart)
                t_last = max(t_last, t + dt)
                t = t + dt if rng.random() < 0.5 else t
        # sends during the faults
        ts = 0.0
        while ts < t_last:
            ts += rng.choice((0.05, 0.2, 0.7))
            w.clock.labelled(ts, "act.send", do_send, "during")
        n_after = rng.choice((2, 4, 6))
        ta = t_last
        for k in range(n_after):
            ta += rng.choice((0.001, 0.05, 0.5, 2.0))
            w.clock.labelled(ta, "act.send", do_send, "after")
        horizon = base + ta + 40.0

        def done():
            if w.clock.seconds() < base + ta + 0.01:
                return False
            if any(not s["fires"] for s in sends):
                return False
            for p in range(P):
                if len(delivered[p]) < len(list(cl.log(topic, p).all_records())):
                    return False
            return True
        w.run(until=horizon, stop=done, max_steps=400000)
        end_t = w.clock.seconds()
        logs = {p: [(o, v) for (o, k_, v, ts_, mg, bid) in cl.log(topic, p).all_records()] for p in range(P)}
        in_log = {}
        for p in range(P):
            for o, v in logs[p]:
                in_log[v] = in_log.get(v, 0) + 1
        for s in sends:
            ok = s["fires"] and not hasattr(s["fires"][0][1], "value")
            if s["tag"] == "after":
                res.hit("recover_sends_after_faults")
                if not s["fires"]:
                    res.violate("recover/send-after-last-fault-never-completed", "a send issued %.3fs after the last "
                                "fault had not completed %.1fs later" % (s["t"] - base - t_last, end_t - s["t"]),
                                faults="".join(word), attempts=attempts.get(s["value"]))
                elif not ok:
                    f = s["fires"][0][1]
                    res.violate("recover/send-after-last-fault-failed", "a send issued %.3fs after the last fault "
                                "failed with %s after %d produce attempts (budget %d)"
                                % (s["t"] - base - t_last, f.type.__name__, attempts.get(s["value"], 0), A),
                                faults="".join(word))
                if attempts.get(s["value"], 0) > A:
                    res.violate("recover/attempt-budget-exceeded", "%d produce attempts for one send, budget %d"
                                % (attempts[s["value"]], A))
                res.ob("send_after_faults_succeeds_within_budget")
            if ok and in_log.get(s["value"], 0) < 1:
                res.violate("recover/acknowledged-send-not-in-log", "send %r was reported successful but is not in "
                            "the log" % s["value"], faults="".join(word))
            if s["fires"] and not ok and len(s["fires"]) == 1:
                res.ev("send_failed_during_faults")
        for p in range(P):
            got = delivered[p]
            want = logs[p]
            if got != want[:len(got)]:
                k = next(i for i in range(len(got)) if i >= len(want) or got[i] != want[i])
                res.violate("recover/consumer-stream-differs-from-log", "partition %d: delivery #%d is %r, the log "
                            "has %r" % (p, k, got[k], want[k] if k < len(want) else None), faults="".join(word))
            elif len(got) < len(want):
                res.violate("recover/consumer-did-not-catch-up", "partition %d: %d of %d records delivered %.1fs after "
                            "the last fault" % (p, len(got), len(want), end_t - base - t_last), faults="".join(word),
                            start_fired=[repr(r)[:120] for r in cstarts[p]])
            res.ob("consumer_caught_up")
        for c in consumers:
            try:
                c.stop()
            except Exception:
                pass
        try:
            eat(producer.stop() or __import__("twisted.internet.defer", fromlist=["succeed"]).succeed(None))
        except Exception:
            pass
        eat(client_p.close())
        if not shared:
            eat(client_c.close())
        w.run(until=w.clock.seconds() + 1.0)
    res.n_sub += 1
    ws = "".join(word)
    res.sigs.add(sig("recover", ws, nb, P, shared, batch))
    if res.sample is None:
        res.sample = dict(kind="recover", faults=ws, brokers=nb, partitions=P, shared_client=shared,
                          sends=len(sends), delivered={p: len(v) for p, v in delivered.items()},
                          max_attempts_seen=max(attempts.values()) if attempts else 0, budget=A,
                          settled_after=round(end_t - base - t_last, 3))


def run(spec):
    res = Result()
    try:
        if spec["kind"] == "mirror":
            run_mirror(spec, res)
        elif spec["kind"] == "invalidate":
            run_invalidate(spec, res)
        elif spec["kind"] == "invalidate_group":
            run_invalidate_group(spec, res)
        else:
            run_recover(spec, res)
    except Exception:
        # keep what the monitors saw before the scenario broke down (it may be the code under test that raised)
        import traceback
        res.inconclusive.append("scenario raised: " + traceback.format_exc(limit=8)[-1200:])
    return res

"""C11 -- every broker request is bounded by the client timeout."""
import random
import struct

from twisted.python.failure import Failure

from .. import refproto as R
from ..core import Result, sig
from ..engines.world import World
from ..traps import Traps

ID = "C11"
LEVEL = "exploration"
RULE = ("each evaluation is one scenario: a client timeout (and disconnect-on-timeout flag), 2..8 requests of mixed "
        "kinds (fetch, list-offsets, produce, heartbeat, join with its 35 s minimum) each answered promptly / late by "
        "a drawn factor of the timeout (0.5, 0.99, 1, 1.01, 1.5, 3) / never, brokers whose connections never "
        "establish, shared connections; run twice (with and without the late replies). distinct = distinct "
        "(settings, behaviours, event-order signature); non-trivial = at least one request timed out or was answered "
        "late")
ASSUMPTIONS = ["'issued' is the moment KafkaClient._make_request_to_broker is entered (stamped by a harness wrapper); "
               "the timeout in force is max(client timeout, stated minimum)",
               "when reply delivery and the timer coincide exactly either outcome is accepted"]
REACH_MIN = {"timed_out": {"quick": 200, "thorough": 3375}, "answered_in_time": {"quick": 300, "thorough": 5062},
             "late_replies": {"quick": 100, "thorough": 1687}, "never_connected": {"quick": 40, "thorough": 675},
             "disconnect_on_timeout_events": {"quick": 40, "thorough": 675},
             "join_min_timeout": {"quick": 40, "thorough": 675}}
EPS = 1e-6


def cases(tier, seed):
    n = {"quick": 320, "thorough": 9000}[tier]
    return [dict(seed=seed * 1000003 + 1100000 + i) for i in range(n)]


def gen(seed):
    rng = random.Random(seed)
    T = rng.choice((0.3, 1.0, 2.5))
    nb = rng.choice((1, 2, 3))
    brokers = list(range(1, nb + 1))
    blackhole = rng.choice(brokers) if rng.random() < 0.2 else None
    reqs = []
    for i in range(rng.randint(2, 8)):
        kind = rng.choice(("fetch", "fetch", "offsets", "produce", "produce0", "heartbeat", "join"))
        b = rng.choice(brokers)
        r = rng.random()
        if r < 0.35:
            beh = ["prompt"]
        elif r < 0.85:
            beh = ["delay", rng.choice((0.5, 0.99, 1.0, 1.01, 1.5, 3.0))]
        else:
            beh = ["never"]
        reqs.append(dict(i=i, kind=kind, broker=b, t=round(rng.choice((0, 0, 0.01, rng.uniform(0, 3 * T))), 4),
                         beh=beh, cancel=(round(rng.uniform(0, 2 * T), 4) if rng.random() < 0.08 else None)))
    versions_only = rng.random() < 0.12
    if versions_only:
        # a version discovery on a client of its own: it retries under ONE correlation id
        r = rng.random()
        beh = ["delay", rng.choice((1.01, 1.2, 1.5, 1.9, 2.5))] if r < 0.8 else (["never"] if r < 0.9 else ["prompt"])
        reqs = [dict(i=0, kind="versions", broker=brokers[0], t=0.0, beh=beh, cancel=None)]
        blackhole = None
    dot = (rng.random() < 0.5) and not versions_only
    latency = rng.choice((0.0, 0.0, 0.003))
    # (own stream) a request to the same broker issued in the moment between a timeout dropping the connection and the
    # transport reporting the loss; it goes unanswered too
    rng3 = random.Random((seed * 40503) ^ 0xC11)
    if dot and rng3.random() < 0.4:
        cands = [r for r in reqs if r["beh"][0] == "never" or (r["beh"][0] == "delay" and r["beh"][1] > 1.0)]
        cands = [r for r in cands if r["kind"] in ("fetch", "offsets", "produce", "heartbeat") and r["cancel"] is None]
        if cands:
            r0 = rng3.choice(cands)
            reqs.append(dict(i=100, kind=rng3.choice(("fetch", "offsets")), broker=r0["broker"],
                             t=round(r0["t"] + T + 1e-6, 7), beh=rng3.choice((["never"], ["never"], ["prompt"])),
                             cancel=None, in_window_of=r0["i"]))
            latency = 0.003
    if any(r["kind"] == "join" for r in reqs) and rng3.random() < 0.35:
        # a client timeout LONGER than the stated minimum for joins: the minimum is a lower bound, not the timeout
        T = rng3.choice((40.0, 60.0))
        for r in reqs:
            r["t"] = round(min(r["t"], 5.0), 4)
            if r["cancel"] is not None:
                r["cancel"] = None
    return dict(seed=seed, T=T, brokers=brokers, blackhole=blackhole, reqs=reqs, versions_only=versions_only,
                disconnect_on_timeout=dot, latency=latency)


def run_once(sc, ghost):
    from afkak import common as C
    from afkak.kafkacodec import KafkaCodec
    random.seed(sc["seed"])  # afkak shuffles candidate brokers with the global generator: keep both runs aligned
    w = World(sc["seed"], brokers=sc["brokers"], latency=sc["latency"])
    cl = w.cluster
    T = sc["T"]
    for r in sc["reqs"]:
        cl.add_topic("q%d" % r["i"], {0: r["broker"]})
        cl.coordinators["g%d" % r["i"]] = r["broker"]
    rec = dict(mrtb=[], calls={}, timer_mismatch=[], closes=[], raw=[], refused=[])
    late = set()
    for r in sc["reqs"]:
        Teff = max(T, 35.0) if r["kind"] == "join" else T
        api = {"fetch": "Fetch", "offsets": "ListOffsets", "produce": "Produce", "produce0": "Produce",
               "heartbeat": "Heartbeat", "join": "JoinGroup", "versions": "ApiVersions"}[r["kind"]]
        match = dict(api=api, topic="q%d" % r["i"]) if r["kind"] in ("fetch", "offsets", "produce", "produce0") else \
            dict(api=api, group="g%d" % r["i"])
        if r["kind"] == "produce0":
            continue  # no reply is ever expected: the request resolves when written
        if r["kind"] == "versions":
            # the discovery retries under ONE correlation id: its first attempt is answered late (or never), so the
            # late reply meets a later attempt bearing the same id
            if r["beh"][0] == "delay":
                # (every attempt is answered equally late: the reply to attempt k lands while attempt k+1 waits)
                cl.faults.add(dict(api="ApiVersions", client_id=b"c11-versions",
                                   action=dict(kind="ok", delay=r["beh"][1] * T)))
                if r["beh"][1] > 1.0:
                    late.add(("ApiVersions", -1))
            elif r["beh"][0] == "never":
                cl.faults.add(dict(api="ApiVersions", client_id=b"c11-versions", nth=[0],
                                   action=dict(kind="silent", apply=False)))
            continue
        if r["beh"][0] == "delay":
            d = r["beh"][1] * Teff
            cl.faults.add(dict(match, action=dict(kind="ok", delay=d)))
            if r["beh"][1] > 1.0:
                late.add((api, r["i"]))
        elif r["beh"][0] == "never":
            cl.faults.add(dict(match, action=dict(kind="silent", apply=False)))

    def is_late(ev):
        if ev["api"] == "ApiVersions":
            return ("ApiVersions", -1) in late and ev.get("action", {}).get("delay", 0) > 0
        if ev["api"] in ("Fetch", "ListOffsets", "Produce"):
            return any((ev["api"], int(t[1:])) in late for t in ev["topics"] if t.startswith("q"))
        g = ev["req"].get("group") or ""
        return g.startswith("g") and (ev["api"], int(g[1:])) in late
    if ghost:
        cl.ghost_pred = is_late
    with Traps() as traps:
        if sc.get("versions_only"):
            client = w.client(timeout=int(T * 1000), disconnect_on_timeout=False, clientId="c11-versions",
                              enable_protocol_version_discovery=True)
        else:
            client = w.client(timeout=int(T * 1000), disconnect_on_timeout=sc["disconnect_on_timeout"])
        box = []
        client.load_metadata_for_topics().addBoth(box.append)
        w.run(until=5.0)
        for r in sc["reqs"]:
            if r["kind"] in ("heartbeat", "join"):
                client.load_coordinator_for_group("g%d" % r["i"]).addBoth(box.append)
        w.run(until=10.0)
        if sc["blackhole"] is not None:
            bh = cl.brokers[sc["blackhole"]]
            w.net.connect_policy = lambda host, port, n: ("blackhole", None) if (host, port) == (bh.host, bh.port) \
                else None
            bc = client.clients.get(sc["blackhole"])
            if bc is not None:
                bc.disconnect()
            for c in list(w.net.conns):
                if (c.host, c.port) == (bh.host, bh.port) and not c.client_lost:
                    c.sever("blackhole")
            w.run(until=11.0)
        orig = type(client)._make_request_to_broker

        def spy_on(client_, tag):
            def spy(broker, correlationId, request, expectResponse=True, min_timeout=None):
                # the timeout in force is what the statement says (the client timeout, or the longer minimum for a
                # group join) -- not whatever reached this function as min_timeout
                try:
                    api_ = R.parse_request(request)["api_name"]
                except Exception:
                    api_ = "?"
                m = dict(t0=w.clock.seconds(), node=broker.node_id, corr=correlationId,
                         T=max(client_.timeout, 35.0) if api_ == "JoinGroup" else client_.timeout, fires=[],
                         connected=broker.connected(), expect=expectResponse, client=tag, api=api_)
                try:
                    d = orig(client_, broker, correlationId, request, expectResponse, min_timeout)
                except Exception as e:
                    # refused synchronously (a correlation id still in use): never became a request
                    rec["refused"].append((w.clock.seconds(), broker.node_id, correlationId, type(e).__name__))
                    raise
                rec["mrtb"].append(m)

                def fired(result):
                    m["fires"].append((w.clock.seconds(), not isinstance(result, Failure),
                                       result if not isinstance(result, Failure) else type(result.value).__name__))
                    return result
                d.addBoth(fired)
                return d
            client_._make_request_to_broker = spy
        spy_on(client, "main")
        rec["raw"] = []
        orig_get = client._get_brokerclient

        def get_bc(node_id):
            bc = orig_get(node_id)
            if not getattr(bc, "_verif_wrapped", False):
                bc._verif_wrapped = True
                orig_mr = bc.makeRequest

                def make_request(correlationId, request, expectResponse=True):
                    q = dict(t0=w.clock.seconds(), node=bc.node_id, corr=correlationId, expect=expectResponse, fires=[])
                    d = orig_mr(correlationId, request, expectResponse)
                    rec["raw"].append(q)
                    d.addBoth(lambda r_: (q["fires"].append((w.clock.seconds(), not isinstance(r_, Failure))), r_)[1])
                    return d
                bc.makeRequest = make_request
            return bc
        client._get_brokerclient = get_bc
        for node_id in list(client.clients):
            get_bc(node_id)
        client2 = client if sc.get("versions_only") else None

        def timers_ok():
            n_t = sum(1 for dc in w.clock.getDelayedCalls() if getattr(dc.func, "__name__", "") == "_mrtb_timeout")
            n_o = sum(1 for m in rec["mrtb"] if not m["fires"])
            if n_t != n_o:
                rec["timer_mismatch"].append((w.clock.seconds(), n_t, n_o))
        w.clock.hooks.append(timers_ok)
        base = 12.0

        def issue(r):
            i = r["i"]
            topic, group = "q%d" % i, "g%d" % i
            out = rec["calls"].setdefault(i, dict(t0=w.clock.seconds(), fires=[], d=None, kind=r["kind"]))
            try:
                if r["kind"] == "versions":
                    d = client2.fetch_api_versions()
                elif r["kind"] == "fetch":
                    d = client.send_fetch_request([C.FetchRequest(topic, 0, 0, 1024)], max_wait_time=20, min_bytes=0)
                elif r["kind"] == "offsets":
                    d = client.send_offset_request([C.OffsetRequest(topic, 0, -1, 1)])
                elif r["kind"] == "produce":
                    d = client.send_produce_request([C.ProduceRequest(topic, 0, [C.Message(0, 0, None, b"x")])])
                elif r["kind"] == "produce0":
                    d = client.send_produce_request([C.ProduceRequest(topic, 0, [C.Message(0, 0, None, b"x")])], acks=0)
                elif r["kind"] == "heartbeat":
                    d = client._send_request_to_coordinator(group, C._HeartbeatRequest(group, 1, "m"),
                                                            encoder_fn=KafkaCodec.encode_heartbeat_request,
                                                            decode_fn=KafkaCodec.decode_heartbeat_response)
                else:
                    # the join goes out the way a group member sends it: through a real Coordinator (its session
                    # timeout drawn; the stated minimum for joins does not depend on it), with the follow-up the
                    # coordinator would schedule on failure switched off
                    from afkak._group import Coordinator

                    class _OneShot(Coordinator):
                        def rejoin_after_error(self, result, label=None):
                            return result
                    sess = random.Random(sc["seed"] * 31 + i).choice((6000, 10000, 30000, 30000, 45000, 60000, 120000))
                    coord = _OneShot(client, group, [topic], session_timeout_ms=sess)
                    rec.setdefault("join_sessions", []).append(sess)
                    d = coord.send_join_group_request()
            except Exception as e:
                out["fires"].append((w.clock.seconds(), False, type(e).__name__))
                return
            out["d"] = d
            d.addBoth(lambda res_: out["fires"].append(
                (w.clock.seconds(), not isinstance(res_, Failure),
                 type(res_.value).__name__ if isinstance(res_, Failure) else "ok")))
        for r in sc["reqs"]:
            w.clock.labelled(base - w.clock.seconds() + r["t"], "call.issue", issue, r)
            if r["cancel"] is not None:
                def cancel(i=r["i"]):
                    c = rec["calls"].get(i)
                    if c and c["d"] is not None and not c["fires"]:
                        c["cancelled"] = w.clock.seconds()
                        c["d"].cancel()
                w.clock.labelled(base - w.clock.seconds() + r["t"] + r["cancel"], "call.cancel", cancel)
        horizon = base + 3 * T + 4 * max(T, 35.0 if any(r["kind"] == "join" for r in sc["reqs"]) else T) + 5
        w.run(until=horizon, max_steps=150000)
        w.clock.hooks.remove(timers_ok)
        del client._make_request_to_broker
        rec["closed_at"] = w.clock.seconds()
        client.close()

        w.run(until=horizon + 5)
        traps.flush()
    rec["w"] = w
    rec["unhandled"] = traps.unhandled
    return rec


def deliveries(w, node_addr):
    """corr id -> sorted delivery times of complete response frames with that id from this address"""
    out = {}
    for c in w.net.conns:
        if (c.host, c.port) != node_addr:
            continue
        buf = bytearray()
        for t, data in c.s2c:
            buf.extend(data)
            while len(buf) >= 4:
                (n,) = struct.unpack_from(">i", buf, 0)
                if len(buf) < 4 + n:
                    break
                if n >= 4:
                    (cid,) = struct.unpack_from(">i", buf, 4)
                    out.setdefault(cid, []).append(t)
                del buf[:4 + n]
    return out


def outcome_table(rec):
    return [(m["node"], m["corr"], tuple((round(t, 9), ok, (v if not ok else "bytes")) for t, ok, v in m["fires"]))
            for m in rec["mrtb"]]


def outcome_map(rec):
    """(node, correlation id, issue time) -> outcome.  Requests are matched across the two runs by identity; a
    request that exists in one run only (a late reply frees its correlation id for reuse, so a retry under the same
    id becomes possible) is a different history, not a disturbed request."""
    out = {}
    for m in rec["mrtb"]:
        cut = [f for f in m["fires"] if f[2] == "ClientError" and f[0] >= rec.get("closed_at", 1e18) - EPS]
        if cut:
            continue
        out[(m["node"], m["corr"], round(m["t0"], 9))] = tuple((round(t, 9), ok, (v if not ok else "bytes"))
                                                              for t, ok, v in m["fires"])
    return out


def run(spec):
    res = Result()
    sc = gen(spec["seed"])
    rec = run_once(sc, ghost=False)
    w = rec["w"]
    cl = w.cluster
    nontrivial = False
    addr = {n: (b.host, b.port) for n, b in cl.brokers.items()}
    dl = {n: deliveries(w, a) for n, a in addr.items()}
    cancelled_calls = [c for c in rec["calls"].values() if c.get("cancelled") is not None]
    for m in rec["mrtb"]:
        T = m["T"]
        if T >= 35.0:
            res.hit("join_min_timeout")
        if len(m["fires"]) != 1:
            if cancelled_calls and not m["fires"]:
                res.ev("unfired_after_caller_cancel")
            res.violate("request-fired-%d-times" % len(m["fires"]), "a broker request's Deferred fired %d times within "
                        "the horizon" % len(m["fires"]), t0=m["t0"], T=T)
            continue
        t, ok, val = m["fires"][0]
        if val == "ClientError" and t >= rec.get("closed_at", 1e18) - EPS:
            res.ev("request_cut_short_by_the_harness_closing_the_client")
            continue
        tds = [x for x in dl[m["node"]].get(m["corr"], []) if x >= m["t0"] - EPS]
        td = tds[0] if tds else None
        deadline = m["t0"] + T
        if t > deadline + EPS:
            res.violate("bound/resolved-after-timeout", "request resolved %.6fs after it was issued, timeout %.3fs"
                        % (t - m["t0"], T), ok=ok, val=val if not ok else "bytes")
        res.ob("resolves_within_timeout")
        if val == "CancelledError" and cancelled_calls:
            res.ev("cancelled_by_caller")
            continue
        if not m["expect"]:
            # fire-and-forget: resolves (None) once written, or times out if no connection came up in time
            if not ok and (val != "RequestTimedOutError" or abs(t - deadline) > EPS):
                res.violate("bound/no-reply-request-failed-with-%s" % val, "acks=0 request failed with %s at +%.6f"
                            % (val, t - m["t0"]))
            res.hit("no_reply_requests")
            res.ob("no_reply_request_resolves")
            continue
        if td is not None and td < deadline - EPS:
            if not ok or abs(t - td) > EPS:
                res.violate("bound/reply-in-time-but-%s" % ("failed-" + str(val) if not ok else "completed-late"),
                            "reply was delivered %.6fs after issue (timeout %.3fs) but the request %s" % (
                                td - m["t0"], T, "failed with %s" % val if not ok else "completed at +%.6f" %
                                (t - m["t0"])))
            res.hit("answered_in_time")
            res.ob("in_time_reply_completes_at_once")
        elif td is None or td > deadline + EPS:
            nontrivial = True
            if ok:
                res.violate("bound/succeeded-without-timely-reply", "request succeeded although no reply had been "
                            "delivered by the timeout")
            elif val != "RequestTimedOutError":
                res.violate("bound/timeout-reported-as-%s" % val, "request without a timely reply failed with %s, not "
                            "RequestTimedOutError" % val)
            elif abs(t - deadline) > EPS:
                res.violate("bound/timed-out-at-wrong-time", "timed out %.6fs after issue, timeout is %.3fs" % (
                    t - m["t0"], T))
            res.hit("timed_out")
            if td is not None:
                res.hit("late_replies")
            if not m["connected"] and sc["blackhole"] == m["node"]:
                res.hit("never_connected")
            res.ob("no_reply_times_out_exactly")
            # 4 disconnect on timeout
            if sc["disconnect_on_timeout"] and ok is False and val == "RequestTimedOutError":
                conns = [c for c in w.net.conns if (c.host, c.port) == addr[m["node"]]
                         and c.opened < deadline - EPS and (c.closed_at is None or c.closed_at >= deadline - EPS)]
                for c in conns:
                    closed = [ev for ev in w.net.log if ev[0] == "client_close" and ev[2] == c.id]
                    if not closed or abs(closed[0][1] - deadline) > EPS:
                        if c.closed_at is None or c.closed_at > deadline + EPS:
                            res.violate("disconnect-on-timeout/connection-not-dropped", "the silent connection was "
                                        "not closed at the timeout", conn=c.id)
                    res.hit("disconnect_on_timeout_events")
                    res.ob("silent_connection_dropped")
        else:
            res.ev("tie_between_reply_and_timer")
    if sc.get("versions_only"):
        pass
    elif sc["disconnect_on_timeout"]:
        # requests outstanding on a dropped connection and not themselves timed out must be re-sent on a new one
        by_corr = {}
        for e in cl.history:
            if "req" in e and e["t"] >= 12.0 - EPS:
                by_corr.setdefault((e["broker"], e["corr"]), []).append(e)
        for m in rec["mrtb"]:
            if not m["fires"] or m["fires"][0][2] != "RequestTimedOutError":
                continue
            D = m["fires"][0][0]
            mine = by_corr.get((m["node"], m["corr"]), [])
            if not mine:
                continue
            dropped_conn = mine[-1]["conn"]
            for m2 in rec["mrtb"]:
                if m2 is m or m2["node"] != m["node"] or not m2["fires"]:
                    continue
                if not (m2["t0"] < D - EPS and m2["fires"][0][0] > D + EPS):
                    continue
                evs2 = by_corr.get((m2["node"], m2["corr"]), [])
                if not any(e["conn"] == dropped_conn and e["t"] < D for e in evs2):
                    continue
                if m2["fires"][0][2] == "CancelledError":
                    continue
                if not any(e["conn"] != dropped_conn and e["t"] >= D - EPS for e in evs2):
                    res.violate("disconnect-on-timeout/unanswered-request-not-resent", "a request that was "
                                "outstanding on the connection dropped at a timeout never reached the broker again",
                                corr=m2["corr"], dropped_at=D)
                res.hit("resent_after_timeout_disconnect")
                res.ob("outstanding_requests_resent")
    else:
        closes = [ev for ev in w.net.log if ev[0] == "client_close" and ev[1] > 12.0 - EPS
                  and ev[1] < max([mm["fires"][0][0] for mm in rec["mrtb"] if mm["fires"]] + [12.0]) + EPS]
        if closes and sc["blackhole"] is None:
            res.violate("disconnect-on-timeout/disconnected-although-disabled", "a connection was closed by the "
                        "client during the run although disconnect_on_timeout is off", n=len(closes))
    # nothing reaches a broker connection except through the timed path: every makeRequest() seen on a broker
    # client has a timed record with the same node and correlation id issued at that instant, and resolves in time
    timed = set((m["node"], m["corr"], round(m["t0"], 9)) for m in rec["mrtb"])
    for q in rec["raw"]:
        if (q["node"], q["corr"], round(q["t0"], 9)) in timed:
            continue
        Tq = sc["T"]
        if not q["fires"]:
            res.violate("bound/request-outside-the-timed-path/never-resolved", "a request (expectResponse=%s) was handed "
                        "to the broker client without a timeout and had not resolved %.1fs later (timeout %.3fs)"
                        % (q["expect"], w.clock.seconds() - q["t0"], Tq), node=q["node"])
        elif q["fires"][0][0] > q["t0"] + Tq + EPS:
            res.violate("bound/request-outside-the-timed-path/resolved-late", "a request handed to the broker client "
                        "without a timeout resolved %.6fs later (timeout %.3fs)" % (q["fires"][0][0] - q["t0"], Tq))
        else:
            res.ev("untimed_request_resolved_in_time")
    res.ob("all_requests_on_the_timed_path", len(rec["raw"]))
    if rec["timer_mismatch"]:
        t, n_t, n_o = rec["timer_mismatch"][0]
        res.violate("timer/%s" % ("not-released" if n_t > n_o else "missing"), "at a quiescent point %d timeout "
                    "timers were armed for %d outstanding requests" % (n_t, n_o), t=t)
    res.ob("timer_count_matches_outstanding", max(1, w.clock.steps // 4))
    for e in w.clock.errors:
        if e[2] == "AlreadyCalledError":
            res.violate("fired-twice/AlreadyCalledError", e[3][-300:])
        else:
            res.ev("diag_reactor_event_raised_" + e[2])
    # 3 late replies are inert (differential)
    if any(r["beh"][0] == "delay" and r["beh"][1] > 1.0 for r in sc["reqs"]):
        rec2 = run_once(sc, ghost=True)
        ma, mb = outcome_map(rec), outcome_map(rec2)
        common = sorted(set(ma) & set(mb))
        res.hit("requests_compared_across_runs", len(common))
        a = [(k, ma[k]) for k in common]
        b = [(k, mb[k]) for k in common]
        if a != b:
            diff = [(x, y) for x, y in zip(a, b) if x != y][:3]
            res.violate("late-reply/disturbs-another-request", "removing the replies that arrive after the timeout "
                        "changes the outcome of a request", diff=diff, len_a=len(a), len_b=len(b))
        res.ob("late_replies_inert")
    if nontrivial:
        res.sig = sig(sc["T"], sc["disconnect_on_timeout"], [(r["kind"], r["beh"]) for r in sc["reqs"]],
                      tuple(w.clock.trace[:3000]))
    res.sample = dict(timeout=sc["T"], disconnect_on_timeout=sc["disconnect_on_timeout"], blackhole=sc["blackhole"],
                      requests=[(r["kind"], r["broker"], r["t"], r["beh"]) for r in sc["reqs"]],
                      outcomes=[(m["node"], round(m["t0"], 4), m["T"], [(round(t - m["t0"], 6), ok,
                                                                         v if not ok else "response")
                                                                        for t, ok, v in m["fires"]])
                                for m in rec["mrtb"]])
    return res

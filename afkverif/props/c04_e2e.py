"""End-to-end half of C04 (filled in once the cluster simulator exists)."""


def cases(tier, seed):
    return []


def run(spec, res):
    return res

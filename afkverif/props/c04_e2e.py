"""End-to-end half of C04: every frame the simulated brokers receive is parsed by the strict reference parser
(simkafka does that for each frame and keeps the ones that fail), and the version-selection clause is judged against
generated ApiVersions tables and brokers that do not answer version discovery."""
import random

from ..core import sig
from ..engines.world import World
from ..traps import Traps

REACH = {"e2e_frames_parsed": {"quick": 20000, "thorough": 288000},
         "version_scenarios": {"quick": 110, "thorough": 1584},
         "discovery_failed_scenarios": {"quick": 33, "thorough": 475},
         "produce_requests_versioned": {"quick": 300, "thorough": 4320},
         "fetch_requests_versioned": {"quick": 300, "thorough": 4320}}

IMPLEMENTED = {0: (0, 1, 2), 1: (0, 1, 2)}  # versions whose layout afkak can write and whose reply it can read


def cases(tier, seed):
    out = []
    n = {"quick": (20, 20, 12, 200), "thorough": (500, 500, 300, 5000)}[tier]
    for i in range(n[0]):
        out.append(dict(kind="e2e_prod", seed=seed * 1000003 + 410000 + i))
    for i in range(n[1]):
        out.append(dict(kind="e2e_cons", seed=seed * 1000003 + 420000 + i))
    for i in range(n[2]):
        out.append(dict(kind="e2e_grp", seed=seed * 1000003 + 430000 + i))
    for i in range(n[3]):
        out.append(dict(kind="versions", seed=seed * 1000003 + 440000 + i, idx=i))
    return out


def frames_ok(res, cluster, where):
    hist = [e for e in cluster.history if "req" in e]
    res.hit("e2e_frames_parsed", len(hist))
    for b in cluster.bad_frames:
        res.violate("e2e/frame-does-not-parse/%s" % b["error"].split(":")[0][:60].replace(" ", "-"),
                    "a request received by broker %d in a %s scenario does not parse under the reference grammar: %s"
                    % (b["broker"], where, b["error"]), frame=b["frame"][:160].hex())
    census = {}
    for e in hist:
        census[(e["api"], e["version"])] = census.get((e["api"], e["version"]), 0) + 1
    res.ob("e2e_frames_conform", len(hist))
    return census


def run(spec, res):
    k = spec["kind"]
    if k == "e2e_prod":
        from ..engines import prod
        rng = random.Random(spec["seed"])
        sc = prod.gen_scenario(spec["seed"], rng.choice(("general", "batch", "nofault", "mixed")))
        tr = prod.run_scenario(sc)
        census = frames_ok(res, tr.cluster, "producer")
    elif k == "e2e_cons":
        from ..engines import cons
        rng = random.Random(spec["seed"])
        sc = cons.gen_scenario(spec["seed"], rng.choice(("stream", "commit", "retry", "clean")))
        tr = cons.run_scenario(sc)
        census = frames_ok(res, tr.cluster, "consumer")
    elif k == "e2e_grp":
        from ..engines import grp
        sc = grp.gen_scenario(spec["seed"], "rebalance")
        tr = grp.run_scenario(sc)
        census = frames_ok(res, tr.cluster, "group")
    else:
        return run_versions(spec, res)
    res.n_sub += 1
    res.sigs.add(sig(k, tuple(sorted(census.items()))))
    if res.sample is None:
        res.sample = dict(kind=k, frames_by_api_and_version={"%s v%d" % a: n for a, n in sorted(census.items())})
    return res


def gen_table(rng, idx):
    """(mode, table).  Tables satisfy the statement's premise: produce and fetch advertise min 0 and max >= 2."""
    pmax = rng.choice((2, 2, 3, 5, 7, 9))
    fmax = rng.choice((2, 2, 3, 4, 11))
    dense = [(0, 0, pmax), (1, 0, fmax), (2, 0, rng.choice((0, 1, 5))), (3, 0, rng.choice((0, 2, 8))),
             (8, 0, rng.choice((1, 2, 7))), (9, 0, rng.choice((1, 3))), (10, 0, rng.choice((0, 2))), (11, 0, 2),
             (12, 0, 1), (13, 0, 1), (14, 0, 1), (18, 0, rng.choice((0, 1, 2)))]
    cls = ("table", "full", "table", "unordered", "sparse", "close", "silent", "error35", "silent-then-table",
           "silent-then-table", "table-then-silent", "table-then-silent")[idx % 12]
    if cls in ("silent-then-table", "table-then-silent"):
        return cls, dense
    if cls == "table":
        return "table", dense
    if cls == "full":
        full = [(k, 0, rng.choice((0, 1, 2, 3))) for k in range(0, 19)]
        full[0] = (0, 0, pmax)
        full[1] = (1, 0, fmax)
        return "table", full
    if cls == "unordered":
        t = list(dense)
        rng.shuffle(t)
        return "table-unordered", t
    if cls == "sparse":
        t = [(18, 0, rng.choice((0, 1, 2))), (0, 0, pmax), (1, 0, fmax)]
        rng.shuffle(t)
        return "table-sparse", t
    return cls, dense


def run_versions(spec, res):
    from afkak import OFFSET_EARLIEST, Consumer, Producer
    from afkak.common import OffsetRequest
    rng = random.Random(spec["seed"])
    mode, table = gen_table(rng, spec.get("idx", 0))
    nb = rng.choice((1, 2))
    # a broker that hangs up on ApiVersions is redialled at once: without latency that loop would not advance time
    w = World(spec["seed"], brokers=range(1, nb + 1), latency=(0.01 if mode == "close" else rng.choice((0.0, 0.002))))
    cl = w.cluster
    cl.version_table = list(table)
    for b in cl.brokers.values():
        b.api_versions = mode if mode in ("close", "silent", "error35") else "table"
    switch_t = None
    if mode == "table-then-silent":
        # discovery succeeds; later the brokers stop answering ApiVersions and one produce request goes unanswered
        # (its retry must still be laid out for the version its messages were built for)
        t_sw = rng.choice((1.0, 2.0))

        def go_silent():
            for b in cl.brokers.values():
                b.api_versions = "silent"
            cl.faults.add(dict(api="Produce", nth=[0], action=dict(kind="silent", apply=False)))
        w.clock.labelled(t_sw, "fault.version_discovery_goes_silent", go_silent)
        res.hit("discovery_lost_later_scenarios")
    if mode == "silent-then-table":
        # the broker is stalled at first (one version discovery gives up) and answers later ones: two overlapping
        # discoveries of the same client end differently
        for b in cl.brokers.values():
            b.api_versions = "stall"
        # the first discovery (started by the producer at t=0) gives up after four one-second attempts; the second
        # one must start before that and be answered after it
        switch_t = rng.choice((4.05, 4.1, 4.25, 4.25, 3.2, 3.7, 5.1))

        def wake():
            for b in cl.brokers.values():
                b.release_stalled()
        w.clock.labelled(switch_t, "fault.version_discovery_answers", wake)
    topic = "vt"
    P = rng.choice((1, 2))
    cl.add_topic(topic, {p: rng.randint(1, nb) for p in range(P)})
    delivered = {p: [] for p in range(P)}
    sends = []
    codec = rng.choice((None, None, 1))
    who_first = rng.choice(("producer", "consumer", "client"))
    if mode == "silent-then-table":
        who_first = "producer"
    with Traps():
        cid_spec = rng.choice((None, None, "", "x", "afkak-verif \u00fcn\u00ef", b"bytes-id", b""))
        kw_cid = {} if cid_spec is None else dict(clientId=cid_spec)
        rng_c = random.Random((spec["seed"] * 7919) ^ 0xC0221D)
        if rng_c.random() < 0.3:
            # a client whose correlation-id counter is about to pass the int32 limit (a long-lived one, or one
            # constructed with correlation_id=...): the ids must wrap, every header must still be encodable
            kw_cid = dict(kw_cid, correlation_id=2 ** 31 - rng_c.randint(1, 14))
            res.hit("clients_crossing_the_correlation_id_limit")
        client = w.client(timeout=1000, enable_protocol_version_discovery=True, **kw_cid)
        producer = Producer(client, req_acks=1, max_req_attempts=4, retry_interval=0.1, codec=codec)
        consumers = []

        def mk(p):
            def proc(c, msgs):
                for m in msgs:
                    delivered[p].append((m.offset, m.message.value, m.message.key))
            return proc

        def start_consumers():
            for p in range(P):
                c = Consumer(client, topic, p, mk(p), fetch_max_wait_time=100, request_retry_init_delay=0.1,
                             request_retry_max_delay=0.5)
                consumers.append(c)
                c.start(OFFSET_EARLIEST).addErrback(lambda f: None)

        def send(i):
            val = b"ver-%d-" % i + bytes(rng.randrange(256) for _ in range(rng.choice((0, 3, 40))))
            key = rng.choice((None, b"", b"k%d" % i))
            rec = dict(i=i, value=val, key=key, fires=[])
            sends.append(rec)
            kw = dict(key=key) if key is not None else {}
            producer.send_messages(topic, msgs=[val], **kw).addBoth(rec["fires"].append)
        if who_first == "consumer":
            start_consumers()
        elif who_first == "client":
            client.send_offset_request([OffsetRequest(topic, 0, -1, 1)]).addErrback(lambda f: None)
        n = rng.choice((1, 3, 6))
        for i in range(n):
            w.clock.labelled(rng.choice((0.0, 0.0, 0.05, 0.5)), "act.send", send, i)
        if who_first != "consumer":
            w.clock.labelled(rng.choice((0.0, 0.3)) if switch_t is None else round(switch_t - rng.choice((0.2, 0.4, 0.7, 0.9)), 3),
                             "act.consume", start_consumers)
        if mode == "table-then-silent":
            for i in range(n, n + 3):
                w.clock.labelled(t_sw + rng.choice((0.1, 0.5, 1.5)), "act.send", send, i)
        if switch_t is not None:
            for i in range(n, n + 3):
                w.clock.labelled(switch_t + rng.choice((1.5, 3.0, 5.0)), "act.send", send, i)
        w.run(until=w.clock.seconds() + (12.0 if switch_t is None and mode != "table-then-silent" else 20.0))
        for c in consumers:
            try:
                c.stop()
            except Exception:
                pass
        try:
            producer.stop()
        except Exception:
            pass
        client.close().addErrback(lambda f: None)
        w.run(until=w.clock.seconds() + 1.0)
    res.n_sub += 1
    res.hit("version_scenarios")
    failed_disc = mode in ("close", "silent", "error35")
    mixed_disc = mode == "silent-then-table"
    if failed_disc:
        res.hit("discovery_failed_scenarios")
    census = frames_ok(res, cl, "version-discovery")
    # the client id in every request header is the one the caller supplied (empty is not absent)
    want_cid = b"afkak-client" if cid_spec is None else (cid_spec if isinstance(cid_spec, bytes) else
                                                         cid_spec.encode("utf-8"))
    for e in cl.history:
        if "req" in e:
            got = e.get("client_id")
            if got != want_cid:
                res.violate("e2e/client-id-differs", "KafkaClient(clientId=%r) put client id %r in a %s request header, "
                            "expected %r" % (cid_spec, got, e["api"], want_cid))
                break
    res.ob("client_id_as_supplied")
    adv = {}
    for (k, lo, hi) in table:
        adv[k] = (lo, hi)
    hist = [e for e in cl.history if "req" in e]
    first_av = next((i for i, e in enumerate(hist) if e["api"] == "ApiVersions"), None)
    for i, e in enumerate(hist):
        if e["api"] not in ("Produce", "Fetch"):
            continue
        key = 0 if e["api"] == "Produce" else 1
        res.hit("produce_requests_versioned" if key == 0 else "fetch_requests_versioned")
        v = e["version"]
        if first_av is None or first_av > i:
            res.violate("versions/request-before-discovery", "%s v%d was sent before any ApiVersions request although "
                        "discovery is enabled" % (e["api"], v))
        if mixed_disc:
            lo, hi = adv[key]
            if not (lo <= v <= hi) or v not in IMPLEMENTED[key]:
                res.violate("versions/version-not-advertised", "%s v%d sent; the broker advertises %d..%d once it "
                            "answers" % (e["api"], v, lo, hi))
            res.ob("version_advertised_and_implemented")
        elif failed_disc:
            if v != 0:
                res.violate("versions/no-fallback-to-v0/%s" % mode, "discovery failed (%s) but %s v%d was sent"
                            % (mode, e["api"], v))
            res.ob("falls_back_to_v0")
        else:
            lo, hi = adv[key]
            if not (lo <= v <= hi):
                res.violate("versions/version-not-advertised", "%s v%d sent; the broker advertised %d..%d (%s)"
                            % (e["api"], v, lo, hi, mode), table=table)
            if v not in IMPLEMENTED[key]:
                res.violate("versions/version-not-implemented", "%s v%d sent; afkak implements %r" % (e["api"], v,
                                                                                                    IMPLEMENTED[key]))
            res.ob("version_advertised_and_implemented")
    # the matching decoder was used: results are right
    logs = {p: [(o, v_, k_) for (o, k_, v_, ts, mg, bid) in cl.log(topic, p).all_records()] for p in range(P)}
    in_log = {}
    for p in range(P):
        for (o, v_, k_) in logs[p]:
            in_log.setdefault(v_, []).append((p, o, k_))
    for s in sends:
        if not s["fires"]:
            res.violate("versions/send-never-completed", "a send did not complete (%s)" % mode, table=table)
            continue
        r0 = s["fires"][0]
        if hasattr(r0, "value") and hasattr(r0, "check"):
            res.violate("versions/send-failed", "a send failed with %s although the broker is healthy (%s)"
                        % (r0.type.__name__, mode), table=table)
            continue
        where = in_log.get(s["value"])
        if not where:
            res.violate("versions/acknowledged-send-not-in-log", "send %r acknowledged but not in the log" % s["value"])
            continue
        off = getattr(r0, "offset", None)
        if off is not None and not any(off <= o for (_p, o, _k) in where):
            res.violate("versions/produce-reply-misdecoded", "the produce result says offset %r, the record is at %r"
                        % (off, where))
        if where[0][2] != s["key"]:
            res.violate("versions/key-null-vs-empty", "sent key %r, the log holds %r" % (s["key"], where[0][2]))
        res.ob("produce_reply_decoded")
    for p in range(P):
        got = [(o, v_) for (o, v_, k_) in delivered[p]]
        want = [(o, v_) for (o, v_, k_) in logs[p]]
        if got != want:
            res.violate("versions/fetch-reply-misdecoded-or-incomplete", "partition %d: delivered %r, log %r (%s)"
                        % (p, got[:4], want[:4], mode), table=table)
        res.ob("fetch_reply_decoded")
    res.sigs.add(sig("versions", mode, tuple(table), who_first, codec, P, n))
    if res.sample is None or res.sample.get("kind") != "versions":
        res.sample = dict(kind="versions", mode=mode, table=table[:4], first=who_first,
                          frames_by_api_and_version={"%s v%d" % a: c for a, c in sorted(census.items())})
    return res

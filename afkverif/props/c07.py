"""C07 -- requests reach the responsible broker; results return in payload order."""
import random

from twisted.python.failure import Failure

from ..core import Result, sig
from ..engines.world import World
from ..traps import Traps
from .. import refproto as R

ID = "C07"
LEVEL = "exploration"
RULE = ("each evaluation is one scenario: a generated cluster (1..4 brokers, leader map with leaderless partitions, "
        "coordinator) and 3..7 sequential client calls (produce acks 1/0, fetch, list-offsets, offset-fetch, "
        "offset-commit, group request, metadata / coordinator lookup) with payload lists in arbitrary order, each "
        "under a drawn subset of brokers that refuse, drop, stay silent or answer late; distinct = distinct (layout, "
        "call kinds, fault subsets, event-order signature); non-trivial = at least one call reached two brokers or "
        "met a failing broker")
ASSUMPTIONS = ["calls inside one scenario are issued one after the other so that every frame can be attributed to "
               "its call", "payload lists never repeat a (topic, partition) (the wire format cannot carry that)",
               "'metadata last served' = the latest Metadata reply sent to this client before the request arrived"]
REACH_MIN = {"multi_broker_calls": {"quick": 150, "thorough": 2243},
             "partial_failures": {"quick": 64, "thorough": 957},
             "coordinator_calls": {"quick": 80, "thorough": 1196},
             "broker_agnostic_all_fail": {"quick": 30, "thorough": 448},
             "leaderless_calls": {"quick": 20, "thorough": 299}}

TIMEOUT_MS = 2000


def cases(tier, seed):
    n = {"quick": 320, "thorough": 8000}[tier]
    out = [dict(kind="e2e", seed=seed * 1000003 + 500000 + i) for i in range(n)]
    out.append(dict(kind="hosts", seed=seed))
    return out


def gen(seed):
    rng = random.Random(seed)
    nb = rng.choice((1, 2, 2, 3, 3, 4))
    brokers = list(range(1, nb + 1))
    topics = {}
    for ti in range(rng.choice((1, 2, 3))):
        name = "t%d" % ti
        topics[name] = {}
        for p in range(rng.choice((1, 2, 3, 4, 6))):
            topics[name][p] = -1 if rng.random() < 0.06 else rng.choice(brokers)
    steps = []
    for _ in range(rng.randint(3, 7)):
        kind = rng.choice(("produce", "produce", "produce0", "fetch", "fetch", "offsets", "offset_fetch",
                           "offset_commit", "group", "metadata", "coordinator"))
        tps = [(t, p) for t in topics for p in topics[t]]
        rng.shuffle(tps)
        payload_tps = tps[:rng.randint(1, max(1, min(len(tps), 6)))]
        if rng.random() < 0.04:
            payload_tps.append(("t0", 99))  # unknown partition
        faults = {}
        for b in brokers:
            r = rng.random()
            if r < 0.62:
                continue
            faults[str(b)] = rng.choice(("refuse", "silent", "drop", "late", "late", "silent"))
        if rng.random() < 0.5:
            faults = {}
        if kind in ("metadata", "coordinator") and rng.random() < 0.4:
            faults = dict((str(b), rng.choice(("refuse", "silent", "drop", "silent"))) for b in brokers)
        move = None
        if rng.random() < 0.15 and tps:
            t, p = rng.choice(tps)
            move = [t, p, rng.choice(brokers)]
        readdress = None
        if rng.random() < 0.15 and nb > 1:
            # a broker comes back at another address; the client is told (full refresh) before the call
            readdress = rng.choice(brokers)
            faults.pop(str(readdress), None)
        steps.append(dict(kind=kind, tps=payload_tps, faults=faults, move=move, readdress=readdress,
                          fail_on_error=rng.random() < 0.5, group="g%d" % rng.randint(0, 2)))
    if nb > 1 and rng.random() < 0.25:
        # acks=0 towards several leaders, one of which cannot be reached: without replies the failed request is the
        # only thing that tells the caller anything
        tps = [(t, p) for t in topics for p in topics[t] if topics[t][p] != -1]
        rng.shuffle(tps)
        if tps:
            victim = topics[tps[0][0]][tps[0][1]]
            steps.insert(rng.randrange(len(steps) + 1), dict(
                kind="produce0", tps=tps[:rng.randint(1, min(len(tps), 6))],
                faults={str(victim): rng.choice(("refuse", "refuse", "silent"))}, move=None, readdress=None,
                fail_on_error=rng.random() < 0.5, group="g0"))
    return dict(seed=seed, brokers=brokers, topics=topics, steps=steps, latency=rng.choice((0.0, 0.002, 0.02)),
                chunk=rng.choice(("whole", "random", "coalesce")),
                bootstrap_extra=rng.random() < 0.3)


def run_e2e(spec, res):
    from afkak import common as C
    from afkak.kafkacodec import KafkaCodec
    sc = gen(spec["seed"])
    res.n_sub += 1
    w = World(sc["seed"], brokers=sc["brokers"], latency=sc["latency"], chunk=sc["chunk"])
    cl = w.cluster
    for t, parts in sc["topics"].items():
        cl.add_topic(t, {int(p): l for p, l in parts.items()})
    hosts = w.bootstrap_hosts()
    if sc["bootstrap_extra"]:
        hosts = hosts + ["nowhere.sim:9092"]
    nontrivial = False
    kinds = []
    with Traps() as traps:
        client = w.client(hosts=hosts, timeout=TIMEOUT_MS)
        box = []
        client.load_metadata_for_topics().addBoth(box.append)
        w.run(until=w.clock.seconds() + 10)
        gen_ = [0]
        for step in sc["steps"]:
            # -- arrange faults
            cl.faults.rules = []
            for b in sc["brokers"]:
                if not cl.brokers[b].up:
                    cl.start_broker(b)
            w.run(until=w.clock.seconds() + 1.0)
            if step["move"]:
                cl.move_leader(step["move"][0], step["move"][1], step["move"][2])
            if step.get("readdress"):
                b_ = step["readdress"]
                gen_[0] += 1
                step["_old_addr"] = (cl.brokers[b_].host, cl.brokers[b_].port)
                cl.readdress(b_, "moved%d-%d.sim" % (b_, gen_[0]), 7500 + gen_[0], sever=True)
                told = []
                client.load_metadata_for_topics().addBoth(told.append)
                w.run(until=w.clock.seconds() + 6.0, stop=lambda: bool(told))
                step["_told"] = bool(told) and not isinstance(told[0], Failure)
                # let the client learn that its old connection is gone (frames written into a connection the peer
                # has already dropped vanish, which is TCP's doing and not a routing matter)
                w.run(until=w.clock.seconds() + 6 * sc["latency"] + 0.01)
            for b, f in step["faults"].items():
                b = int(b)
                if f == "refuse":
                    cl.stop_broker(b)
                elif f == "silent":
                    cl.faults.add(dict(broker=b, action=dict(kind="silent", apply=False)))
                elif f == "drop":
                    cl.faults.add(dict(broker=b, nth=[0, 1], action=dict(kind="drop", apply=False)))
                    cl.faults.add(dict(broker=b, action=dict(kind="silent", apply=False)))
                elif f == "late":
                    cl.faults.add(dict(broker=b, action=dict(kind="ok", delay=w.rng.choice((0.01, 0.3, 1.0)))))
            h0 = len(cl.history)
            a0 = len(w.net.attempts)
            t0 = w.clock.seconds()
            step["_t0"] = t0
            step["_h0"] = h0
            trials = step["_trials"] = []
            orig_mrtb = type(client)._make_request_to_broker

            def spy(broker, correlationId, request, expectResponse=True, min_timeout=None, _t=trials):
                conn_now = frozenset(n for n, x in (client.clients or {}).items() if x.connected())
                _t.append((w.clock.seconds(), broker.node_id, broker.connected(), conn_now))
                return orig_mrtb(client, broker, correlationId, request, expectResponse, min_timeout)
            client._make_request_to_broker = spy
            connected0 = set(n for n, bc in client.clients.items() if bc.connected())
            known0 = set(client._brokers)
            kind = step["kind"]
            tps = [tuple(x) for x in step["tps"]]
            out = []
            payloads = None
            try:
                if kind in ("produce", "produce0"):
                    payloads = [C.ProduceRequest(t, p, [C.Message(0, 0, b"k", b"%s/%d" % (t.encode(), p))])
                                for t, p in tps]
                    d = client.send_produce_request(payloads, acks=0 if kind == "produce0" else 1,
                                                    fail_on_error=step["fail_on_error"])
                elif kind == "fetch":
                    payloads = [C.FetchRequest(t, p, 0, 4096) for t, p in tps]
                    d = client.send_fetch_request(payloads, fail_on_error=step["fail_on_error"], max_wait_time=50,
                                                  min_bytes=1)
                elif kind == "offsets":
                    payloads = [C.OffsetRequest(t, p, -1, 1) for t, p in tps]
                    d = client.send_offset_request(payloads, fail_on_error=step["fail_on_error"])
                elif kind == "offset_fetch":
                    payloads = [C.OffsetFetchRequest(t, p) for t, p in tps]
                    d = client.send_offset_fetch_request(step["group"], payloads,
                                                         fail_on_error=step["fail_on_error"])
                elif kind == "offset_commit":
                    payloads = [C.OffsetCommitRequest(t, p, 5 + i, -1, None) for i, (t, p) in enumerate(tps)]
                    d = client.send_offset_commit_request(step["group"], payloads,
                                                          fail_on_error=step["fail_on_error"])
                elif kind == "group":
                    d = client._send_request_to_coordinator(
                        step["group"], C._HeartbeatRequest(step["group"], 1, "nobody"),
                        encoder_fn=KafkaCodec.encode_heartbeat_request,
                        decode_fn=KafkaCodec.decode_heartbeat_response)
                elif kind == "metadata":
                    d = client.load_metadata_for_topics(*sorted(set(t for t, p in tps if t in sc["topics"])))
                else:
                    d = client.load_coordinator_for_group(step["group"])
            except Exception:
                d = None
                out.append(Failure())
            if d is not None:
                d.addBoth(out.append)
            try:
                w.run(until=t0 + 40.0, stop=lambda: bool(out), max_steps=100000)
            except Exception as e:
                res.inconclusive.append("run failed: %r" % (e,))
                return
            kinds.append(kind)
            del client._make_request_to_broker
            # let frames that are still in flight (acks=0 completes at write time) reach the brokers
            w.run(until=w.clock.seconds() + sc["latency"] * 4 + 0.001)
            if not out:
                res.violate("call-never-completed/%s" % kind, "client call did not complete within 40 virtual "
                            "seconds (timeout %d ms)" % TIMEOUT_MS, step=step)
                continue
            result = out[0]
            evs = [e for e in cl.history[h0:] if "req" in e]
            check_step(res, sc, w, client, step, kind, tps, payloads, result, evs, cl, connected0, known0, a0, C)
            if step.get("readdress") and step.get("_told") and kind in ("produce", "produce0", "fetch", "offsets"):
                b_ = step["readdress"]
                led = [tp for tp in tps if cl.leaders.get(tp) == b_]
                reached = set((t_["topic"], p_["partition"]) for e in evs
                              if e["api"] == API_OF[kind] and e["broker"] == b_
                              for t_ in e["req"]["topics"] for p_ in t_["partitions"])
                missing = [tp for tp in led if tp not in reached]
                stale_dials = [(a.host, a.port) for a in w.net.attempts[a0:] if (a.host, a.port) == step["_old_addr"]
                               and hasattr(a.factory, "node_id")]
                if led:
                    res.hit("calls_after_a_broker_moved")
                if missing and stale_dials:
                    res.violate("routing/moved-broker-not-reached", "node %d came back at a new address and the client "
                                "was told so by a full metadata refresh, yet the %s payloads for %r never reached it "
                                "(dialled: %r)" % (b_, kind, missing, [(a.host, a.port) for a in w.net.attempts[a0:]][:4]))
                res.ob("moved_broker_reached_at_new_address")
            if len(set(e["broker"] for e in evs if e["api"] not in ("Metadata", "FindCoordinator"))) >= 2 \
                    or step["faults"]:
                nontrivial = True
        d = client.close()
        w.run(until=w.clock.seconds() + 5)
        traps.flush()
    for e in w.clock.errors:
        res.ev("diag_reactor_event_raised_" + e[2])
    for b in cl.bad_frames:
        res.violate("unparseable-frame", "a broker received a frame the strict parser rejects: %s" % b["error"])
    if nontrivial:
        res.sig = sig(sorted(sc["topics"].items()), kinds, [sorted(s["faults"].items()) for s in sc["steps"]],
                      tuple(w.clock.trace[:4000]))
    if res.sample is None:
        res.sample = dict(brokers=sc["brokers"], topics=sc["topics"], steps=[
            dict(kind=s["kind"], payloads=s["tps"], faults=s["faults"]) for s in sc["steps"]])


API_OF = {"produce": "Produce", "produce0": "Produce", "fetch": "Fetch", "offsets": "ListOffsets",
          "offset_fetch": "OffsetFetch", "offset_commit": "OffsetCommit", "group": "Heartbeat"}


def served_leaders(cl, owner_conns, before_seq):
    """Leader per (topic, partition) according to the Metadata replies sent so far (latest wins)."""
    view = {}
    for e in cl.history[:before_seq]:
        if e.get("api") == "Metadata" and e.get("replied") == "sent" and e.get("result"):
            for (terr, name, parts) in e["result"]["topics"]:
                for k in [k for k in view if k[0] == name]:
                    del view[k]
                for (perr, p, leader, reps, isr) in parts:
                    view[(name, p)] = leader
    return view


def check_step(res, sc, w, client, step, kind, tps, payloads, result, evs, cl, connected0, known0, a0, C):
    is_fail = isinstance(result, Failure)
    api = API_OF.get(kind)
    if api is not None:
        reqs = [e for e in evs if e["api"] == api]
        # ---- routing
        if kind in ("produce", "produce0", "fetch", "offsets"):
            res.hit("leader_routed_calls")
            by_broker = {}
            seen_corr = set()
            for e in reqs:
                if (e["broker"], e["corr"]) in seen_corr:
                    continue  # the same request re-sent by the broker client after a reconnect (C10's subject)
                seen_corr.add((e["broker"], e["corr"]))
                got = [(t["topic"], p["partition"]) for t in e["req"]["topics"] for p in t["partitions"]]
                if len(got) != len(set(got)):
                    res.violate("routing/payload-duplicated-in-request", "a request carries a payload twice")
                by_broker.setdefault(e["broker"], []).append((e, got))
            # Leader lookups of one call happen payload by payload and one of them may refresh the metadata, so a
            # payload may legitimately have been routed by the view that was current when the call started or by
            # any view served during the call before its request left (the statement does not fix the instant).
            h0 = step["_h0"]
            last_seq = max([e["seq"] for e in reqs] or [h0])
            views = [served_leaders(cl, None, h0)]
            for e in cl.history[h0:last_seq]:
                if e.get("api") == "Metadata" and e.get("replied") == "sent":
                    views.append(served_leaders(cl, None, e["seq"] + 1))

            def acceptable(tp):
                return set(v.get(tp) for v in views) - set([None])
            for b, lst in by_broker.items():
                if len(lst) > 1:
                    res.violate("routing/more-than-one-request-per-broker", "a broker received %d distinct requests "
                                "for one call" % len(lst), broker=b, kind=kind)
                e, got = lst[0]
                for tp in got:
                    if tp not in tps:
                        res.violate("routing/foreign-payload", "a request carries a payload the caller did not "
                                    "supply", tp=tp)
                    elif b not in acceptable(tp):
                        res.violate("routing/sent-to-non-leader", "payload sent to a broker that no metadata served "
                                    "to this client (at call start or during the call) names as leader", tp=tp,
                                    sent_to=b, served_leaders=sorted(acceptable(tp)))
                    res.ob("routed_to_served_leader")
            sent = [tp for lst in by_broker.values() for (_e, got) in lst for tp in got]
            if len(sent) != len(set(sent)):
                res.violate("routing/payload-sent-to-two-brokers", "a payload was sent to more than one broker")
            if reqs:
                for tp in tps:
                    if tp in sent:
                        continue
                    acc = acceptable(tp)
                    if acc and all((n in connected0 and str(n) not in step["faults"]) for n in acc):
                        res.violate("routing/payload-not-sent", "requests were sent for this call but a payload "
                                    "whose leader was connected and healthy was in none of them", tp=tp,
                                    leaders=sorted(acc))
                res.ob("every_payload_sent_once")
            if len(by_broker) >= 2:
                res.hit("multi_broker_calls")
        else:
            res.hit("coordinator_calls")
            fc = [e for e in cl.history[:evs[-1]["seq"] + 1 if evs else 0]
                  if e.get("api") == "FindCoordinator" and e.get("replied") == "sent"
                  and e["req"]["group"] == step["group"] and e["result"].get("error") == 0]
            for e in reqs:
                prior = [f for f in fc if f["seq"] < e["seq"]]
                if not prior:
                    res.violate("routing/coordinator-request-without-lookup", "group/offset request sent before any "
                                "successful FindCoordinator answer", kind=kind)
                elif prior[-1]["result"]["node"] != e["broker"]:
                    res.violate("routing/sent-to-non-coordinator", "request went to a broker other than the one the "
                                "last FindCoordinator answer named", sent_to=e["broker"],
                                coordinator=prior[-1]["result"]["node"])
                res.ob("routed_to_coordinator")
            if len(set((e["broker"], e["corr"]) for e in reqs)) > 1:
                res.violate("routing/more-than-one-request-per-broker", "coordinator call produced %d distinct "
                            "requests" % len(set((e["broker"], e["corr"]) for e in reqs)), kind=kind)
    # ---- results
    if kind in ("produce", "produce0", "fetch", "offsets", "offset_fetch", "offset_commit"):
        keys = [(p.topic, p.partition) for p in payloads]
        if not is_fail:
            if kind == "produce0":
                if result not in ([], None):
                    res.violate("result/acks0-has-responses", "acks=0 call returned responses", result=result)
                # success with acks=0 means every payload was handed to a connection
                written = set()
                for ev in w.net.log:
                    if ev[0] == "c2s" and ev[1] >= step["_t0"] - 1e-9:
                        try:
                            pr = R.parse_request(ev[3][4:])
                        except R.ParseError:
                            continue
                        if pr["api_name"] == "Produce":
                            for t in pr["body"]["topics"]:
                                for p in t["partitions"]:
                                    written.add((t["topic"], p["partition"]))
                lost = [k for k in keys if k not in written]
                if lost:
                    res.violate("accounting/acks0-success-but-payload-never-written", "acks=0 call succeeded "
                                "although a payload was never written to any connection", lost=lost)
                res.ob("acks0_success_means_written")
            else:
                got = [(r.topic, r.partition) for r in result]
                if got != keys:
                    res.violate("order/result-not-in-payload-order", "responses are not in the order of the supplied "
                                "payloads (or not one per payload)", got=got, supplied=keys)
                res.ob("result_in_payload_order")
        else:
            f = result
            if f.check(C.FailedPayloadsError):
                res.hit("partial_failures")
                resp = f.value.responses
                failed = f.value.failed_payloads
                rk = [(r.topic, r.partition) for r in resp]
                fk = [(p.topic, p.partition) for p, _ in failed]
                if kind != "produce0":
                    allk = rk + fk
                    if sorted(allk) != sorted(keys):
                        why = "twice" if len(allk) != len(set(allk)) else "missing"
                        res.violate("accounting/payload-%s" % why, "responses + failed payloads do not account for "
                                    "every payload exactly once", responses=rk, failed=fk, supplied=keys)
                    if rk != [k for k in keys if k in rk]:
                        res.violate("order/error-responses-not-in-payload-order", "successful responses carried by "
                                    "the error are not in payload order", got=rk, supplied=keys)
                    res.ob("failed_plus_responses_cover_payloads")
                else:
                    if len(fk) != len(set(fk)) or not set(fk) <= set(keys):
                        res.violate("accounting/acks0-failed-payloads-wrong", "failed payloads of an acks=0 call are "
                                    "not a duplicate-free subset of the supplied ones", failed=fk)
                    res.ob("acks0_failed_reported")
                # failed payloads must be those routed to a broker that did not answer
                for p, why in failed:
                    if not isinstance(why, Failure):
                        res.violate("accounting/failed-payload-without-failure", "failed payload entry carries %r"
                                    % (why,))
            elif f.check(C.LeaderUnavailableError, C.PartitionUnavailableError, C.CoordinatorNotAvailable):
                res.hit("leaderless_calls")
                if api is not None and [e for e in evs if e["api"] == api]:
                    res.violate("routing/request-sent-although-unroutable", "call failed as unroutable but requests "
                                "were sent", error=repr(f.value))
                res.ob("unroutable_sends_nothing")
            elif f.check(C.BrokerResponseError):
                if not step["fail_on_error"] and f.value.errno in (3, 6, 14, 15, 16):
                    res.violate("result/raised-despite-fail_on_error-false", "error %r raised though "
                                "fail_on_error=False" % f.value.errno)
                res.ev("broker_error_raised")
            elif f.check(C.KafkaUnavailableError, C.RequestTimedOutError):
                res.ev("unavailable")
            elif f.check(ValueError, TypeError):
                res.ev("argument_error")
            else:
                res.violate("result/unexpected-failure-%s" % f.type.__name__, "call failed with %r" % (f.value,),
                            kind=kind)
    # ---- broker-agnostic requests
    if kind in ("metadata", "coordinator"):
        api2 = "Metadata" if kind == "metadata" else "FindCoordinator"
        trials = step["_trials"]  # (t, node, connected_then, frozenset(connected nodes then)) per _make_request_to_broker
        tried = []
        for (t, node, was_conn, conn_set) in trials:
            if node not in connected0:
                # connectivity is judged at the moment the call was made (a broker that happens to connect while
                # the call is waiting on another one need not jump the queue)
                skipped = [n for n in connected0 if n not in tried and n != node]
                if skipped:
                    res.violate("broker-agnostic/unconnected-before-connected", "an unconnected broker was tried "
                                "before a broker that was connected when the call was made", tried=tried, now=node,
                                connected_untried=skipped)
            tried.append(node)
            res.ob("connected_first")
        if len(tried) != len(set(tried)):
            res.violate("broker-agnostic/broker-tried-twice", "a broker was tried twice for one request",
                        tried=tried)
        unavailable = is_fail and (result.check(C.KafkaUnavailableError) or
                                   isinstance(getattr(result.value, "__cause__", None), C.KafkaUnavailableError))
        if unavailable:
            missing = [n for n in known0 if n not in tried]
            if missing:
                res.violate("broker-agnostic/known-broker-not-tried", "the call failed as unavailable although a "
                            "known broker was never tried", missing=missing, tried=tried)
            t_last = trials[-1][0] if trials else step["_t0"]
            dialled = set((a.host, a.port) for a in w.net.attempts[a0:] if a.t >= t_last - 1e-9)
            boots = set((h, p) for h, p in client._bootstrap_hosts)
            if not boots <= dialled:
                res.violate("broker-agnostic/bootstrap-host-not-tried", "the call failed as unavailable although a "
                            "bootstrap host was never dialled", missing=sorted(boots - dialled))
            res.hit("broker_agnostic_all_fail")
            res.ob("all_known_then_bootstrap_tried")
        if not is_fail:
            answered = [e for e in evs if e["api"] == api2 and e.get("replied") == "sent"]
            if answered and trials:
                # no further broker is tried after the answer has arrived
                t_ans = answered[0]["reply_t"]
                later = [x for x in trials if x[0] > t_ans + sc["latency"] * 3 + 1e-9]
                if later:
                    res.violate("broker-agnostic/continued-after-answer", "request was offered to further brokers "
                                "after one had answered", later=[x[1] for x in later])
                res.ob("stops_at_first_answer")


def run_hosts(spec, res):
    from afkak.client import _normalize_hosts
    rng = random.Random(spec["seed"])
    names = ["h", "kafka-1", "10.0.0.1", "b.example.com", "H"]
    for _ in range(600):
        n = rng.randint(1, 5)
        pairs = [(rng.choice(names), rng.choice((None, 9092, 9093, 1, 65535))) for _ in range(n)]
        want = sorted(set((h, p or 9092) for h, p in pairs))
        strs = [h if p is None else "%s:%d" % (h, p) for h, p in pairs]
        forms = [
            ",".join(strs), (" , ".join(strs)).encode("ascii"), list(strs), [s.encode("ascii") for s in strs],
            [(h, p or 9092) for h, p in pairs], [(h.encode("ascii"), str(p or 9092)) for h, p in pairs],
        ]
        rng.shuffle(strs)
        forms.append(",".join(strs))
        for f in forms:
            got = _normalize_hosts(f)
            if got != want:
                res.violate("normalize-hosts/differs", "_normalize_hosts result is not the sorted, duplicate-free, "
                            "defaulted list", form=f, got=got, want=want)
            res.ob("normalize_hosts")
        res.n_sub += 1
        res.sigs.add(sig("hosts", want))
    res.sample = dict(kind="normalize_hosts", example=want)


def run(spec):
    res = Result()
    if spec["kind"] == "hosts":
        run_hosts(spec, res)
    else:
        run_e2e(spec, res)
    return res

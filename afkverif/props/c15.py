"""C15 -- group assignment gives every partition to exactly one subscribed member.

Oracle over the real _ConsumerProtocol: join_group_protocols -> generate_assignments
-> decode_assignment, plus the independent decoder of refproto on the same blobs.
"""
import itertools
import random

from ..core import Result, rng_for, sig
from .. import refproto

ID = "C15"
LEVEL = "exploration"
RULE = ("each evaluation is one (member ids, subscription map, partition map) configuration run through the real "
        "join_group_protocols/generate_assignments/decode_assignment in several member-list and partition-list "
        "permutations; it is non-trivial when at least one partition exists for a subscribed topic; distinct = "
        "distinct canonical (subscriptions, partitions) configuration")
ASSUMPTIONS = ["every member subscribes to at least one topic and at least one topic is subscribed overall "
               "(ConsumerGroup refuses an empty topic list)",
               "the partition map handed to the leader covers every subscribed topic after the _NeedTopicPartitions "
               "retry, as Coordinator._join_and_sync arranges"]
REACH_MIN = {"need_topic_partitions_path": {"quick": 50, "thorough": 500},
             "identical_subscriptions": {"quick": 200, "thorough": 2000},
             "subscription_lists_with_a_repeated_topic": {"quick": 100, "thorough": 1000},
             "member_subscribed_to_nothing_with_partitions": {"quick": 30, "thorough": 300},
             "e2e_leader_assignments": {"quick": 40, "thorough": 842},
             "e2e_assignments_after_partition_growth": {"quick": 8, "thorough": 168}}

BATCH = 60
ALPHABET = ["a", "A", "b", "B", "a1", "a10", "a2", "ab", "b-1", "m", "member-1", "member-10", "member-2", "Z", "z",
            "é", "0", "00", "_", "aa"]
TOPICS = ["t", "t1", "t10", "t2", "T", "x.y", "a_b", "zz"]


def cases(tier, seed):
    n = {"quick": 60, "thorough": 3400}[tier]
    out = [dict(kind="random", seed=seed * 1000003 + i, n=BATCH) for i in range(n)]
    if tier == "thorough":
        out.append(dict(kind="enumerate", seed=seed))
    else:
        out.append(dict(kind="enumerate_small", seed=seed))
    # end to end: real group members, the same leader assigning twice with a partition added in between
    for i in range({"quick": 60, "thorough": 900}[tier]):
        out.append(dict(kind="e2e", seed=seed * 1000003 + 1500000 + i, profile="grow" if i % 3 else "rebalance"))
    # ... and faults on the leader's partition lookup
    from . import c17
    md = [c for c in c17.cases(tier, seed) if len(c["word"]) == 1 and c["word"][0][0] == "Metadata"]
    for c in md[:{"quick": 40, "thorough": 400}[tier]]:
        out.append(dict(kind="e2e", seed=c["seed"], profile="c17", c17=c))
    return out


def gen_config(rng):
    nm = rng.choice([1, 1, 2, 2, 3, 3, 4, 5, 6, 8])
    ids = rng.sample(ALPHABET, nm)
    nt = rng.choice([1, 1, 2, 2, 3, 4])
    topics = rng.sample(TOPICS, nt)
    mode = rng.choice(["identical", "identical", "overlap", "disjoint", "loner", "random", "repeats"])
    subs = {}
    if mode == "identical":
        for m in ids:
            subs[m] = list(topics)
    elif mode == "disjoint":
        for i, m in enumerate(ids):
            subs[m] = [topics[i % len(topics)]]
    elif mode == "loner":
        for m in ids:
            subs[m] = list(topics)
        extra = [t for t in TOPICS if t not in topics]
        if extra:
            subs[rng.choice(ids)] = [rng.choice(extra)]
            topics = topics + [subs[ids[0]][0]] if False else topics
    elif mode == "repeats":
        # a subscription list may name a topic more than once (nothing in the protocol forbids it): as many entries
        # as there are topics, but not all of them distinct
        for m in ids:
            subs[m] = list(topics)
        if len(topics) > 1:
            for m in rng.sample(ids, rng.randint(1, len(ids))):
                sub = rng.sample(topics, rng.randint(1, len(topics) - 1))
                subs[m] = list(sub) + [rng.choice(sub) for _ in range(len(topics) - len(sub))]
        else:
            subs[ids[0]] = [topics[0], topics[0]]
    else:
        for m in ids:
            k = rng.randint(1, len(topics))
            subs[m] = rng.sample(topics, k)
    all_topics = sorted(set(t for s in subs.values() for t in s))
    parts = {}
    for t in all_topics:
        style = rng.choice(["dense", "dense", "gappy", "empty", "big"])
        if style == "dense":
            parts[t] = list(range(rng.randint(1, 12)))
        elif style == "gappy":
            parts[t] = sorted(rng.sample(range(0, 40), rng.randint(1, 8)))
        elif style == "big":
            parts[t] = list(range(rng.randint(8, 12)))
        else:
            parts[t] = []
    for m in ids:
        rng.shuffle(subs[m])
    return ids, subs, parts


def check_config(res, proto, common, KafkaCodec, NeedTP, ids, subs, parts, rng, n_perm=3):
    """Run one configuration; returns nothing, records into res."""
    canon = (tuple(sorted((m, tuple(sorted(s))) for m, s in subs.items())),
             tuple(sorted((t, tuple(p)) for t, p in parts.items())))
    total_parts = sum(len(p) for p in parts.values())
    res.n_sub += 1
    if total_parts:
        res.sigs.add(sig(canon))
    members_md = {m: proto.join_group_protocols(list(subs[m]))[0].protocol_metadata for m in ids}
    # the metadata each member sends must say what it subscribed to (ref decoder)
    for m in ids:
        got = refproto.parse_subscription(members_md[m])
        if got["topics"] != list(subs[m]) or got["version"] != 0:
            res.violate("subscription-metadata/wrong-topics", "member metadata does not carry its subscription",
                        member=m, want=subs[m], got=got)
        res.ob("subscription_metadata")
    identical = len(set(tuple(sorted(set(s))) for s in subs.values())) == 1
    if any(len(set(s)) != len(s) for s in subs.values()):
        res.hit("subscription_lists_with_a_repeated_topic")
    if identical:
        res.hit("identical_subscriptions")
    if any(all(not parts[t] for t in subs[m]) for m in ids) and total_parts:
        res.hit("member_subscribed_to_nothing_with_partitions")
    reference = None
    perms = [list(ids)]
    for _ in range(n_perm):
        p = list(ids)
        rng.shuffle(p)
        perms.append(p)
    perms.append(sorted(ids))
    perms.append(sorted(ids, reverse=True))
    for pi, order in enumerate(perms):
        members = [common._JoinGroupResponseMember(m, members_md[m]) for m in order]
        tp = {t: list(p) for t, p in parts.items()}
        if pi % 2 == 1:
            for t in tp:
                rng.shuffle(tp[t])
            tp = dict(sorted(tp.items(), reverse=True))
        # the leader first tries with no partition knowledge (as _join_and_sync does)
        if pi == 0:
            try:
                proto.generate_assignments(members, topic_partitions={})
            except NeedTP as e:
                res.hit("need_topic_partitions_path")
                missing = set(t for s in subs.values() for t in s)
                if not missing <= set(e.topics):
                    res.violate("need-topic-partitions/missing-topic-not-named",
                                "_NeedTopicPartitions does not name a subscribed topic without partition data",
                                named=sorted(e.topics), needed=sorted(missing))
                res.ob("need_topic_partitions")
            else:
                res.violate("need-topic-partitions/not-raised", "assignment computed without any partition data")
        try:
            enc = proto.generate_assignments(members, topic_partitions=tp)
        except Exception as e:
            res.violate("generate-assignments-raised/%s" % type(e).__name__, "generate_assignments raised %r" % (e,),
                        ids=order, subs=subs, parts=parts)
            return
        got_ids = [a.member_id for a in enc]
        if sorted(got_ids) != sorted(order):
            res.violate("encoded-members/not-one-blob-per-member", "leader's assignment list does not have exactly "
                        "one entry per member", ids=order, got=got_ids)
            return
        decoded = {}
        for a in enc:
            try:
                d = proto.decode_assignment(a.member_metadata)
            except Exception as e:
                res.violate("decode-assignment-raised/%s" % type(e).__name__, "decode_assignment raised %r" % (e,),
                            member=a.member_id)
                return
            mine = {t: list(ps) for t, ps in d.items()}
            ref = refproto.parse_assignment(a.member_metadata)
            ref_map = {}
            for t, ps in ref["topics"]:
                if t in ref_map:
                    res.violate("assignment-blob/topic-twice", "a topic appears twice in one member's blob",
                                member=a.member_id, topic=t)
                ref_map.setdefault(t, []).extend(ps)
            if {t: sorted(p) for t, p in mine.items() if p} != {t: sorted(p) for t, p in ref_map.items() if p}:
                res.violate("decode-vs-reference/disagree", "afkak and the reference decoder read different "
                            "partitions from the same assignment blob", member=a.member_id, afkak=mine, ref=ref_map)
            res.ob("decode_equals_reference")
            decoded[a.member_id] = mine
        # 1 exact cover
        want = sorted((t, p) for t in set(t for s in subs.values() for t in s) for p in parts[t])
        have = sorted((t, p) for m in decoded for t, ps in decoded[m].items() for p in ps)
        if have != want:
            missing = sorted(set(want) - set(have))
            twice = sorted(set(x for x in have if have.count(x) > 1))
            foreign = sorted(set(have) - set(want))
            kind = "missing" if missing else ("twice" if twice else "foreign")
            res.violate("exact-cover/%s" % kind, "decoded assignments are not an exact cover of the subscribed "
                        "partitions", ids=order, subs=subs, parts=parts, missing=missing[:10], twice=twice[:10],
                        foreign=foreign[:10])
        res.ob("exact_cover")
        # 2 only subscribed
        for m in decoded:
            for t, ps in decoded[m].items():
                if ps and t not in subs[m]:
                    res.violate("only-subscribed/unsubscribed-topic-assigned", "member received a partition of a "
                                "topic it did not subscribe to", member=m, topic=t, subs=subs)
        res.ob("only_subscribed")
        # 3 balance
        if identical:
            counts = [sum(len(ps) for ps in decoded[m].values()) for m in order]
            if max(counts) - min(counts) > 1:
                res.violate("balance/spread-greater-than-one", "identical subscriptions but partition counts differ "
                            "by more than one", counts=dict(zip(order, counts)), parts=parts)
            res.ob("balance")
        # 4 permutation invariance
        norm = {m: {t: sorted(ps) for t, ps in decoded[m].items() if ps} for m in decoded}
        if reference is None:
            reference = norm
        else:
            if norm != reference:
                res.violate("permutation-invariance/result-depends-on-order", "assignment changed when the member "
                            "list / partition lists were presented in another order", order=order,
                            first=reference, now=norm)
            res.ob("permutation_invariance")
    if res.sample is None:
        res.sample = dict(members=ids, subscriptions=subs, partitions=parts, assignment=reference)


def run_e2e(spec):
    """The C16 monitor on a live group; only the clauses about the leader's assignment and what each member decodes
    from it belong to this property."""
    from . import c16
    full = c16.run(spec)
    res = Result()
    res.inconclusive = list(full.inconclusive)
    for v in full.violations:
        if v["key"].startswith("assignment/"):
            res.violate("e2e/" + v["key"], v["msg"], **v["witness"])
    n = full.reach.get("leader_assignments_checked", 0)
    res.hit("e2e_leader_assignments", n)
    res.hit("e2e_assignments_after_partition_growth", 1 if (spec["profile"] == "grow" and n >= 2) else 0)
    res.ob("e2e_leader_assignment_exact_cover", full.obligations.get("leader_assignment_exact_cover", 0))
    res.ob("e2e_member_runs_exactly_its_assignment", full.obligations.get("member_runs_exactly_its_assignment", 0))
    res.n_sub += 1
    res.sigs = set(full.sigs)
    res.sample = None
    return res


def run(spec):
    from afkak import _group, common
    from afkak.kafkacodec import KafkaCodec
    res = Result()
    proto = _group._ConsumerProtocol()
    NeedTP = _group._NeedTopicPartitions
    rng = random.Random(spec["seed"])
    if spec["kind"] == "e2e":
        return run_e2e(spec)
    if spec["kind"] == "random":
        for _ in range(spec["n"]):
            ids, subs, parts = gen_config(rng)
            check_config(res, proto, common, KafkaCodec, NeedTP, ids, subs, parts, rng)
    else:
        # exhaustive small space: <=3 members, <=2 topics, <=3 partitions per topic, every subscription map
        max_m = 3 if spec["kind"] == "enumerate" else 2
        names = ["b", "a", "B"]
        topics = ["t", "s"]
        count = 0
        for nm in range(1, max_m + 1):
            ids = names[:nm]
            subsets = [["t"], ["s"], ["t", "s"]]
            for combo in itertools.product(subsets, repeat=nm):
                subs = {m: list(c) for m, c in zip(ids, combo)}
                used = sorted(set(t for s in subs.values() for t in s))
                for pc in itertools.product(range(0, 4), repeat=len(used)):
                    parts = {t: list(range(n)) for t, n in zip(used, pc)}
                    for order in itertools.permutations(ids):
                        check_config(res, proto, common, KafkaCodec, NeedTP, list(order), subs, parts, rng, n_perm=0)
                        count += 1
        res.hit("enumerated_configurations", count)
        res.sample = dict(enumerated=count, members_up_to=max_m, topics=topics, partitions_per_topic="0..3")
    return res


def coverage_extra(tier, seed, results):
    n = sum(r.get("reach", {}).get("enumerated_configurations", 0) for r in results)
    return dict(exhaustive_subspace="all configurations with <=%d members, <=2 topics, <=3 partitions per topic and "
                                    "all member-list permutations: %d" % (3 if tier == "thorough" else 2, n))

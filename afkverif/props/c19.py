"""C19 -- batching thresholds, time limit and cancellation behave as documented."""
from twisted.python.failure import Failure

from ..core import Result, sig
from ..engines import prod
from . import c09

ID = "C19"
LEVEL = "exploration"
RULE = ("each evaluation is one batching scenario: thresholds (count, bytes, seconds; each possibly disabled), dense "
        "sends of drawn sizes incl. null messages, cancels before and after dispatch, slow/failing batch completions "
        "and stop(), on warm metadata with zero network latency so dispatch and first write coincide. A reference "
        "accounting of the queue is kept from caller-side events only and compared at every hand-over and every "
        "quiescent point. distinct = distinct (thresholds, script, event-order signature); non-trivial = at least one "
        "batch hand-over")
ASSUMPTIONS = ["'dispatch' is observed at Producer._send_requests (the hand-over of a collected batch), with metadata "
               "pre-warmed so that it is synchronous with the decision to send",
               "state clauses read Producer._batch_reqs/_waitingMsgCount/_waitingByteCount/_batch_send_d at quiescent "
               "points; a missing attribute makes that clause inconclusive, not passed",
               "cancellation error = afkak.common.CancelledError or twisted.internet.defer.CancelledError"]
REACH_MIN = {"dispatches": {"quick": 344, "thorough": 5805}, "threshold_dispatches": {"quick": 200, "thorough": 3375},
             "tick_dispatches": {"quick": 60, "thorough": 1012}, "cancel_before_dispatch": {"quick": 48, "thorough": 810},
             "cancel_after_dispatch": {"quick": 10, "thorough": 168}, "stops_with_outstanding": {"quick": 28, "thorough": 472},
             "dispatch_on_resolve": {"quick": 30, "thorough": 506}, "state_checks": {"quick": 5000, "thorough": 84375},
             "batches_with_a_late_cancel": {"quick": 20, "thorough": 500}, "duplicate_sends": {"quick": 15, "thorough": 400}}


def cases(tier, seed):
    n = {"quick": 320, "thorough": 9000}[tier]
    out = [dict(seed=seed * 1000003 + 1900000 + i, profile="batch") for i in range(n)]
    n2 = {"quick": 100, "thorough": 2500}[tier]
    out += [dict(seed=seed * 1000003 + 2900000 + i, profile="latecancel") for i in range(n2)]
    return out


def msg_bytes(msgs):
    return sum(len(m) for m in msgs if m is not None)


def run(spec):
    from afkak import common as C
    from twisted.internet.defer import CancelledError as TCancelled
    res = Result()
    sc = prod.gen_scenario(spec["seed"], spec.get("profile", "batch"))
    cfg = sc["cfg"]
    state = dict(checks=0, missing=None)
    holder = {}

    def pre(w, producer):
        holder["w"] = w
        holder["producer"] = producer
        log = w.net.log
        import sys as _sys
        orig_call_later = w.clock.callLater

        def call_later(delay, fn, *a, **kw):
            if _sys._getframe(1).f_globals.get("__name__", "") == "afkak.producer":
                log.append(("producer_timer", w.clock.seconds(), delay))
            return orig_call_later(delay, fn, *a, **kw)
        w.clock.callLater = call_later
        orig_complete = producer._complete_batch_send

        def complete(resp):
            log.append(("batch_resolved", w.clock.seconds()))
            return orig_complete(resp)
        producer._complete_batch_send = complete
        orig_send_batch = producer._send_batch

        def send_batch():
            before = producer._batch_reqs
            members = list(before)
            # logged before the call (everything it triggers must come after it in the log) and voided afterwards
            # if the producer did not take the queue
            entry = ["batch_dispatch", w.clock.seconds(), [id(x.deferred) for x in members],
                     [id(x.deferred) for x in members if not x.deferred.called]]
            pos = len(log)
            log.append(entry)
            r = orig_send_batch()
            if producer._batch_reqs is before:
                log[pos] = ("noop", entry[1])
            else:
                log[pos] = tuple(entry)
            return r
        producer._send_batch = send_batch
        if getattr(producer, "_sendLooper", None) is not None:
            producer._sendLooper.f = send_batch

        def state_check():
            try:
                reqs = producer._batch_reqs
                cnt, byt, inflight = producer._waitingMsgCount, producer._waitingByteCount, producer._batch_send_d
            except AttributeError as e:
                state["missing"] = str(e)
                return
            state["checks"] += 1
            want_c = sum(len(r.messages) for r in reqs)
            want_b = sum(msg_bytes(r.messages) for r in reqs)
            if (cnt, byt) != (want_c, want_b):
                res.violate("accounting/counters-disagree-with-queue", "waiting message/byte counters (%d, %d) differ "
                            "from what is queued (%d, %d)" % (cnt, byt, want_c, want_b), t=w.clock.seconds())
            if inflight is None and getattr(producer, "stopping", False) is not True:
                n, b = producer.batch_every_n, producer.batch_every_b
                if reqs and ((n and n <= want_c) or (b and b <= want_b)):
                    res.violate("missed-dispatch/threshold-met-and-nothing-in-flight", "no batch is in flight and "
                                "the queue meets a threshold, yet nothing was dispatched", queued=(want_c, want_b),
                                thresholds=(n, b), t=w.clock.seconds())
        holder["state_check"] = state_check
    # install the quiescent-point check through the engine's hook list
    orig_run = prod.run_scenario

    def run_scenario_with_state(sc_):
        return orig_run(sc_)
    tr = c09.run_with_hooks(sc, pre_with_quiesce(pre, holder))
    check(res, tr, holder, state, C, TCancelled)
    return res


def pre_with_quiesce(pre, holder):
    def wrapped(w, producer):
        pre(w, producer)
        w.clock.hooks.append(lambda: holder["state_check"]())
    return wrapped


def check(res, tr, holder, state, C, TCancelled):
    sc = tr.sc
    cfg = sc["cfg"]
    if tr.capped:
        res.inconclusive.append("scenario aborted: %s" % getattr(tr, "cap_reason", "?"))
        return
    if state["missing"]:
        res.inconclusive.append("state clause not evaluated: %s" % state["missing"])
    res.hit("state_checks", state["checks"])
    res.ob("state_invariants", state["checks"])
    log = tr.w.net.log
    by_d = dict((id(r["d"]), s_) for s_, r in tr.sends.items() if r["d"] is not None)
    reqs = prod.produce_requests(tr)
    n_thr, b_thr, T = cfg["batch_every_n"], cfg["batch_every_b"], cfg["batch_every_t"]
    if not cfg["batch_send"]:
        n_thr, b_thr, T = 1, 1, None
    # reference accounting from caller-side events
    queue = []  # send ids queued, not cancelled, not yet dispatched
    in_flight = False
    stopped = False
    resolved_t = tr.base
    enq_time = {}
    dispatch_time = {}
    t_create = None
    for ev in log:
        if ev[0] == "send" and t_create is None:
            pass
    # the LoopingCall was started when the Producer was built, at tr.base (now=False)
    t0 = tr.base
    dispatched_sends = set()
    n_disp = 0
    for i, ev in enumerate(log):
        kind = ev[0]
        if kind == "send":
            queue.append(ev[2])
            enq_time[ev[2]] = (ev[1], in_flight)
        elif kind == "cancel":
            s = ev[2]
            if s in queue:
                queue.remove(s)
                res.hit("cancel_before_dispatch")
                tr.sends[s]["cancel_kind"] = "before"
            else:
                res.hit("cancel_after_dispatch")
                tr.sends[s]["cancel_kind"] = "after"
        elif kind == "stop":
            stopped = True
            stop_queue = list(queue)
            queue = []
        elif kind == "batch_resolved":
            in_flight = False
            resolved_t = ev[1]
        elif kind == "batch_dispatch":
            t = ev[1]
            members = [by_d[d] for d in ev[2] if d in by_d]
            live = [by_d[d] for d in ev[3] if d in by_d]
            n_disp += 1
            res.hit("dispatches")
            if stopped:
                mech = "queued-batch-sent-when-stop-cancels-the-in-flight-one" if abs(t - tr.stop_called) < 1e-9 \
                    else "later"
                res.violate("stop/batch-dispatched-after-stop/%s" % mech, "the producer took a queued batch for "
                            "sending after stop() had been called", t=t, batch=sorted(members))
                in_flight = True
                continue
            if in_flight:
                res.violate("dispatch/while-a-batch-is-in-flight", "a batch was handed over while the previous one "
                            "was still unresolved", t=t)
            # all and only what is queued and not cancelled
            if sorted(members) != sorted(queue):
                extra = sorted(set(members) - set(queue))
                missing = sorted(set(queue) - set(members))
                kind2 = "cancelled-send-included" if any(tr.sends[x]["cancelled"] is not None for x in extra) else \
                    ("queued-send-left-behind" if missing else "unknown-send-included")
                res.violate("dispatch/%s" % kind2, "the dispatched batch is not exactly the sends queued and not "
                            "cancelled at that moment", t=t, batch=sorted(members), queued=sorted(queue))
            res.ob("batch_is_exactly_the_queue")
            # justification
            cnt = sum(len(tr.sends[s]["msgs"]) for s in queue)
            byt = sum(msg_bytes(tr.sends[s]["msgs"]) for s in queue)
            by_threshold = bool((n_thr and cnt >= n_thr) or (b_thr and byt >= b_thr))
            on_tick = False
            if T:
                k = (t - t0) / T
                on_tick = k > 0.5 and abs(k - round(k)) < 1e-6
            if by_threshold:
                res.hit("threshold_dispatches")
                if abs(t - resolved_t) < 1e-9 and t > tr.base:
                    res.hit("dispatch_on_resolve")
            elif on_tick:
                res.hit("tick_dispatches")
            else:
                res.violate("dispatch/unjustified", "a batch was dispatched although neither threshold was met by the "
                            "queued sends and it is not a timer tick", t=t, queued=(cnt, byt), thresholds=(n_thr, b_thr),
                            period=T, since_start=t - t0)
            res.ob("dispatch_justified")
            for s in members:
                dispatch_time[s] = t
                dispatched_sends.add(s)
            queue = []
            in_flight = True
    # 2 no starvation with a time limit
    if T and tr.stop_called is None:
        # resolution times of batches, to find the batch in flight at enqueue
        resolves = [ev[1] for ev in log if ev[0] == "batch_resolved"]
        dispatches = [ev[1] for ev in log if ev[0] == "batch_dispatch"]
        for s, rec in tr.sends.items():
            if rec["cancelled"] is not None and s not in dispatch_time:
                continue
            te, was_in_flight = enq_time.get(s, (None, False))
            if te is None:
                continue
            start = te
            if was_in_flight:
                later = [r for r in resolves if r >= te - 1e-9]
                if later:
                    start = later[0]
                else:
                    continue  # the batch in flight never resolved within the horizon: C01/C09 territory
            if s not in dispatch_time:
                if tr.horizon > start + T + 1e-6:
                    res.violate("starvation/never-dispatched-despite-time-limit", "a send was still queued more than "
                                "one period after it could have gone", send=s, enqueued=te, could_go=start, period=T)
            elif dispatch_time[s] > start + T + 1e-6:
                res.violate("starvation/waited-longer-than-one-period", "a send waited %.4fs beyond the in-flight "
                            "batch, period %.4fs" % (dispatch_time[s] - start, T), send=s)
            res.ob("no_starvation")
    # 3 cancellation
    dup_involved = set()
    for sd in sc["sends"]:
        if sd.get("dup_of") is not None:
            dup_involved.update((sd["s"], sd["dup_of"]))
    on_wire = set()
    for r in reqs:
        for recs in r["payloads"].values():
            for (k, v) in recs:
                s = prod.send_of(k, v)
                if s is not None:
                    on_wire.add(s)
    for s, rec in tr.sends.items():
        if rec["cancelled"] is None:
            continue
        if not rec["fires"]:
            res.violate("cancel/deferred-never-fired", "cancelled send never fired", send=s)
            continue
        t, ok, val, _step = rec["fires"][0]
        if ok or not isinstance(val, Failure) or not val.check(C.CancelledError, TCancelled):
            if not (rec["fires"][0][0] < rec["cancelled"] - 1e-9):
                res.violate("cancel/not-a-cancellation-error", "cancelled send fired with %r" % (
                    val if ok else val.type.__name__,), send=s, when=rec.get("cancel_kind"))
        elif abs(t - rec["cancelled"]) > 1e-9:
            res.violate("cancel/not-immediate", "cancel() did not fail the Deferred at once", send=s)
        if rec.get("cancel_kind") == "before" and s in on_wire and s not in dup_involved:
            res.violate("cancel/cancelled-before-dispatch-but-transmitted", "a send cancelled before dispatch was "
                        "transmitted nevertheless", send=s)
        res.ob("cancel_semantics")
    # 3b a cancel after dispatch only detaches its caller: once the batch has resolved, every other send that was in
    # it has its result
    if tr.stop_called is None and getattr(tr, "client_closed", None) is None:
        resolved_at = [ev[1] for ev in log if ev[0] == "batch_resolved"]
        k = 0
        for ev in log:
            if ev[0] != "batch_dispatch":
                continue
            if k >= len(resolved_at) or resolved_at[k] > tr.horizon:
                break
            t_res = resolved_at[k]
            k += 1
            members = [by_d[d] for d in ev[2] if d in by_d]
            late_cancelled = [m for m in members if tr.sends[m]["cancelled"] is not None and
                              tr.sends[m]["cancelled"] >= ev[1] - 1e-9 and id(tr.sends[m]["d"]) in ev[3]]
            if late_cancelled:
                res.hit("batches_with_a_late_cancel")
            for m in members:
                rec = tr.sends[m]
                if rec["cancelled"] is not None or id(rec["d"]) not in ev[3]:
                    continue
                if not rec["fires"] or m in getattr(tr, "unfired_at_horizon", ()):
                    res.violate("cancel-later/sibling-left-without-result" if late_cancelled else
                                "resolved-batch/send-left-without-result", "the batch resolved at %.4f but a send that "
                                "was dispatched in it (and not cancelled) still has no result at the horizon" %
                                (t_res - tr.base), send=m, cancelled_siblings=late_cancelled)
            res.ob("batch_members_resolved")
    if any(sd.get("dup_of") is not None for sd in sc["sends"]):
        res.hit("duplicate_sends")
        # copies of the repeated message on the wire = copies not withdrawn before dispatch; the surviving copy's
        # caller gets a result
        for sd in sc["sends"]:
            if sd.get("dup_of") is None:
                continue
            pair = [sd["s"], sd["dup_of"]]
            want = sum(1 for x in pair if x in tr.sends and tr.sends[x].get("cancel_kind") != "before")
            head = b"%d:0:" % sd["dup_of"]
            copies = sum(1 for r in reqs for recs in r["payloads"].values() for (k_, v_) in recs
                         if v_ is not None and v_.startswith(head))
            if tr.stop_called is None and copies < want:
                res.violate("duplicate/surviving-copy-never-transmitted", "the same message was sent twice, %d of the "
                            "copies were not withdrawn before dispatch, %d reached the wire" % (want, copies),
                            sends=pair)
            elif copies > want:
                res.violate("duplicate/withdrawn-copy-transmitted", "the same message was sent twice, %d of the copies "
                            "were not withdrawn before dispatch, %d reached the wire" % (want, copies), sends=pair)
            for x in pair:
                rec = tr.sends.get(x)
                if rec is not None and rec["cancelled"] is None and tr.stop_called is None and (
                        not rec["fires"] or x in getattr(tr, "unfired_at_horizon", ())):
                    res.violate("duplicate/surviving-copy-left-without-result", "a send repeating another one word "
                                "for word (the other was cancelled) has no result at the horizon", send=x)
            res.ob("duplicate_sends_independent")
    # 4 stop
    if tr.stop_called is not None:
        if tr.stop_raised:
            res.violate("stop/raised", "stop() raised %s" % tr.stop_raised)
        fire_idx = {}
        for i, ev in enumerate(log):
            if ev[0] == "fire":
                fire_idx.setdefault(ev[2], i)
        outstanding = [s for s, rec in tr.sends.items() if rec["t"] <= tr.stop_called and (
            not rec["fires"] or fire_idx.get(s, 10 ** 9) > tr.stop_log_idx)]
        if outstanding:
            res.hit("stops_with_outstanding")
        for s in outstanding:
            rec = tr.sends[s]
            if not rec["fires"] or s in getattr(tr, "stop_unfired", []):
                res.violate("stop/outstanding-send-not-failed", "a send outstanding at stop() had not failed when "
                            "stop() returned", send=s)
                continue
            t, ok, val, _ = rec["fires"][0]
            if ok:
                if t > tr.stop_called + 1e-9:
                    res.violate("stop/send-succeeded-after-stop", "send succeeded after stop()", send=s)
            elif not val.check(C.CancelledError, TCancelled):
                res.violate("stop/not-a-cancellation-error-%s" % val.type.__name__, "a send outstanding at stop() "
                            "failed with %s instead of a cancellation error" % val.type.__name__, send=s)
            res.ob("stop_fails_outstanding_with_cancellation")
        late = [r for r in reqs if r["idx"] > tr.stop_log_idx]
        if late:
            # mechanism: did the producer arm a retry timer during stop()?
            during = [ev for ev in log[tr.stop_log_idx:] if ev[0] == "producer_timer" and
                      abs(ev[1] - tr.stop_called) < 1e-9]
            mech = "retry-scheduled-by-cancelled-batch" if during else "other"
            res.violate("stop/write-after-stop/%s" % mech, "%d produce request(s) were written after stop() was "
                        "called (first %.4fs later)" % (len(late), late[0]["t"] - tr.stop_called),
                        sends=sorted(set(prod.send_of(k, v) for r in late for recs in r["payloads"].values()
                                         for (k, v) in recs if prod.send_of(k, v) is not None))[:8])
        res.ob("nothing_written_after_stop")
    # 7 no wedge
    prodr = holder.get("producer")
    if prodr is not None and tr.stop_called is None and getattr(tr, "client_closed", None) is None:
        try:
            wedged = prodr._batch_send_d is not None
        except AttributeError:
            wedged = False
        # evaluated by the engine before cleanup? the producer was stopped during cleanup; use the log instead
        n_d = sum(1 for ev in log if ev[0] == "batch_dispatch")
        n_r = sum(1 for ev in log if ev[0] == "batch_resolved" and ev[1] <= tr.horizon)
        if n_d > n_r:
            res.violate("wedge/batch-never-resolved", "a dispatched batch had not resolved by the horizon",
                        dispatched=n_d, resolved=n_r)
        res.ob("no_wedge")
    for e in tr.w.clock.errors:
        if e[2] == "AlreadyCalledError":
            res.violate("fired-twice/AlreadyCalledError", e[3][-400:])
        else:
            res.ev("diag_reactor_event_raised_" + e[2])
    if n_disp:
        res.sig = sig((n_thr, b_thr, T), [(d["t"], d["msgs"], d["cancel"]) for d in sc["sends"]], sc["stop"],
                      tuple(tr.w.clock.trace[:3000]))
    res.sample = dict(thresholds=dict(count=n_thr, bytes=b_thr, seconds=T), sends=[(d["s"], d["t"], d["msgs"], d["cancel"])
                                                                                    for d in sc["sends"]],
                      stop=sc["stop"], dispatches=[(round(ev[1] - tr.base, 4), sorted(by_d[d] for d in ev[2] if d in by_d))
                                                   for ev in log if ev[0] == "batch_dispatch"][:12])

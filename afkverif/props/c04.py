"""C04 -- every request on the wire conforms to the Kafka protocol grammar.

(a) direct: every KafkaCodec.encode_* with generated arguments, parsed by the
    strict independent parser and compared field by field;
(b) end to end: every frame the simulated brokers receive in mixed
    producer/consumer/group scenarios goes through the same parser (see e2e);
(c) version selection against generated ApiVersions tables (see e2e).
"""
import random

from ..core import Result, sig
from .. import gen as G
from .. import refproto as R

ID = "C04"
LEVEL = "exploration"
RULE = ("(a) each evaluation is one call of one request encoder with generated arguments (boundary ints, "
        "empty/absent/unicode strings, null/empty/large bytes, 0..n topics/partitions/messages, both message "
        "formats, none/gzip) parsed by the strict reference parser; (b,c) one end-to-end scenario whose every "
        "received frame is parsed and compared with what the caller asked for. distinct = distinct (encoder, "
        "emitted bytes) / distinct (configuration, version table, order signature); non-trivial = the request "
        "carries at least one field beyond the header (ApiVersions: always)")
ASSUMPTIONS = ["topic names are drawn from Kafka's legal ASCII alphabet; group ids, member ids and protocol names are "
               "arbitrary UTF-8 text (protocol type STRING)", "python-snappy absent: codecs exercised are none and gzip",
               "timestamps that create_message takes from the wall clock are not compared; timestamps supplied by the caller in Message objects are"]
REACH_MIN = {"direct_requests": {"quick": 3168, "thorough": 45619}}
from . import c04_e2e as _e2e  # noqa: E402
REACH_MIN.update(_e2e.REACH)

BATCH = 120


def cases(tier, seed):
    n = {"quick": 48, "thorough": 900}[tier]
    out = [dict(kind="direct", seed=seed * 92821 + i, n=BATCH) for i in range(n)]
    from . import c04_e2e
    out.extend(c04_e2e.cases(tier, seed))
    return out


def hdr_check(res, name, parsed, api_key, version, corr, client_id):
    bad = []
    if parsed["api_key"] != api_key:
        bad.append(("api_key", api_key, parsed["api_key"]))
    if parsed["api_version"] != version:
        bad.append(("api_version", version, parsed["api_version"]))
    if parsed["correlation_id"] != corr:
        bad.append(("correlation_id", corr, parsed["correlation_id"]))
    if parsed["client_id"] != client_id:
        bad.append(("client_id", client_id, parsed["client_id"]))
    if bad:
        res.violate("direct/%s/header-%s" % (name, bad[0][0]), "request header field differs from what was supplied",
                    diffs=bad)


def logical_from_parsed(msgs):
    return [(m["magic"], m["key"], m["value"]) for m in R.flatten_messages(msgs)]


def gen_one(rng, it, K, KC, C):
    """Returns (name, api_key, version, corr, client_id, bytes, compare(parsed) -> None|str)."""
    which = it % 15
    corr = G.g_corr(rng)
    cid = G.g_client_id(rng)
    if which == 0 or which == 13:
        v = rng.choice((0, 2))
        magic = 1 if v == 2 else 0
        codec = rng.choice((0, 0, 1))
        acks = rng.choice((0, 1, -1, 2, G.g_int16(rng)))
        timeout = G.g_int32(rng)
        payloads = []
        want = {}
        explicit = rng.random() < 0.4  # caller-built Message objects with explicit (boundary) timestamps
        want_ts = {}
        for t in G.g_topics(rng, 0, 3):
            for p in G.g_partitions(rng, 0 if rng.random() < 0.2 else 1, 3):
                reqs = []
                logical = []
                if rng.random() < 0.12:
                    payloads.append(C.ProduceRequest(t, p, []))  # a partition with no message at all
                    want[(t, p)] = []
                    continue
                if explicit:
                    msgs = []
                    for _ in range(rng.randint(1, 4)):
                        key, val = G.g_bytes(rng), G.g_bytes(rng, big=True)
                        ts = rng.choice((0, -1, 1, 2 ** 63 - 1, 1234567890123, -2 ** 63)) if magic == 1 else None
                        msgs.append(C.Message(magic, 0, key, val, ts) if magic == 1 else C.Message(0, 0, key, val))
                        logical.append((magic, key, val))
                        want_ts.setdefault((t, p), []).append(ts)
                    msgset = msgs if codec == 0 else [KC.create_gzip_message(msgs, magic)]
                    payloads.append(C.ProduceRequest(t, p, msgset))
                    want[(t, p)] = logical
                    continue
                for _ in range(rng.randint(1, 3)):
                    key = G.g_bytes(rng)
                    vals = [G.g_bytes(rng, big=True) for _ in range(rng.randint(1, 3))]
                    reqs.append(C.SendRequest(t, key, vals, None))
                    logical.extend((magic, key, val) for val in vals)
                msgset = KC.create_message_set(reqs, codec, magic=magic)
                payloads.append(C.ProduceRequest(t, p, msgset))
                want[(t, p)] = logical
        data = K.encode_produce_request(cid, corr, payloads, acks=acks, timeout=timeout, api_version=v)

        def cmp(parsed):
            b = parsed["body"]
            if b["acks"] != acks or b["timeout"] != timeout:
                return "acks/timeout %r/%r != %r/%r" % (b["acks"], b["timeout"], acks, timeout)
            got = {}
            for t in b["topics"]:
                for p in t["partitions"]:
                    got[(t["topic"], p["partition"])] = p
            if set(got) != set(want):
                return "topic-partitions %r != %r" % (sorted(got), sorted(want))
            for k in want:
                if logical_from_parsed(got[k]["messages"]) != want[k]:
                    return "messages for %r differ: %r != %r" % (k, logical_from_parsed(got[k]["messages"])[:4],
                                                                 want[k][:4])
                if k in want_ts:
                    got_ts = [m["timestamp"] for m in R.flatten_messages(got[k]["messages"])]
                    if got_ts != want_ts[k]:
                        return "timestamps for %r differ: %r != %r" % (k, got_ts, want_ts[k])
                for m in got[k]["messages"]:
                    if m["codec"] != codec:
                        return "codec attribute %d, requested %d" % (m["codec"], codec)
                    if codec and len(got[k]["messages"]) != 1:
                        return "compressed payload is not a single wrapper"
            return None
        return "produce_v%d" % v, 0, v, corr, cid, data, cmp, bool(want)
    if which == 1:
        v = rng.choice((0, 2))
        mw, mb = G.g_nonneg32(rng), G.g_int32(rng)
        want = {}
        payloads = []
        for t in G.g_topics(rng):
            for p in G.g_partitions(rng):
                o, m = G.g_int64(rng), G.g_int32(rng)
                payloads.append(C.FetchRequest(t, p, o, m))
                want[(t, p)] = (o, m)
        rng.shuffle(payloads)
        data = K.encode_fetch_request(cid, corr, payloads, max_wait_time=mw, min_bytes=mb, api_version=v)

        def cmp(parsed):
            b = parsed["body"]
            if (b["replica_id"], b["max_wait_ms"], b["min_bytes"]) != (-1, mw, mb):
                return "replica/max_wait/min_bytes %r" % ((b["replica_id"], b["max_wait_ms"], b["min_bytes"]),)
            got = {(t["topic"], p["partition"]): (p["offset"], p["max_bytes"]) for t in b["topics"]
                   for p in t["partitions"]}
            return None if got == want else "partitions %r != %r" % (got, want)
        return "fetch_v%d" % v, 1, v, corr, cid, data, cmp, bool(want)
    if which == 2:
        want = {}
        payloads = []
        for t in G.g_topics(rng):
            for p in G.g_partitions(rng):
                ts, mx = rng.choice((-1, -2, G.g_int64(rng))), G.g_int32(rng)
                payloads.append(C.OffsetRequest(t, p, ts, mx))
                want[(t, p)] = (ts, mx)
        data = K.encode_offset_request(cid, corr, payloads)

        def cmp(parsed):
            b = parsed["body"]
            got = {(t["topic"], p["partition"]): (p["timestamp"], p["max_num_offsets"]) for t in b["topics"]
                   for p in t["partitions"]}
            if b["replica_id"] != -1:
                return "replica_id %r" % b["replica_id"]
            return None if got == want else "partitions %r != %r" % (got, want)
        return "list_offsets", 2, 0, corr, cid, data, cmp, bool(want)
    if which == 3:
        topics = G.g_topics(rng)
        data = K.encode_metadata_request(cid, corr, topics if topics or rng.random() < 0.5 else None)
        return "metadata", 3, 0, corr, cid, data, (lambda p: None if p["body"]["topics"] == topics else
                                                   "topics %r != %r" % (p["body"]["topics"], topics)), True
    if which == 4:
        group = G.g_text(rng)
        data = K.encode_consumermetadata_request(cid, corr, group)
        return "find_coordinator", 10, 0, corr, cid, data, (lambda p: None if p["body"]["group"] == group else
                                                            "group %r != %r" % (p["body"]["group"], group)), True
    if which == 5:
        group, member = G.g_text(rng), G.g_text(rng)
        gen_id = G.g_int32(rng)
        want = {}
        payloads = []
        for t in G.g_topics(rng):
            for p in G.g_partitions(rng):
                o, ts, md = G.g_int64(rng), rng.choice((-1, G.g_int64(rng))), rng.choice((None, b"", b"md", "мд".encode()))
                payloads.append(C.OffsetCommitRequest(t, p, o, ts, md))
                want[(t, p)] = (o, ts, md)
        data = K.encode_offset_commit_request(cid, corr, group, gen_id, member, payloads)

        def cmp(parsed):
            b = parsed["body"]
            if (b["group"], b["generation"], b["member"]) != (group, gen_id, member):
                return "group/generation/member %r" % ((b["group"], b["generation"], b["member"]),)
            got = {(t["topic"], p["partition"]): (p["offset"], p["timestamp"], p["metadata"]) for t in b["topics"]
                   for p in t["partitions"]}
            return None if got == want else "partitions %r != %r" % (got, want)
        return "offset_commit", 8, 1, corr, cid, data, cmp, True
    if which == 6:
        group = G.g_text(rng)
        want = set()
        payloads = []
        for t in G.g_topics(rng):
            for p in G.g_partitions(rng):
                payloads.append(C.OffsetFetchRequest(t, p))
                want.add((t, p))
        data = K.encode_offset_fetch_request(cid, corr, group, payloads)

        def cmp(parsed):
            b = parsed["body"]
            got = set((t["topic"], p["partition"]) for t in b["topics"] for p in t["partitions"])
            if b["group"] != group:
                return "group %r != %r" % (b["group"], group)
            return None if got == want else "partitions %r != %r" % (got, want)
        return "offset_fetch", 9, 1, corr, cid, data, cmp, True
    if which == 7:
        group, member, ptype = G.g_text(rng), G.g_text(rng), G.g_text(rng)
        st = G.g_int32(rng)
        protos = [(G.g_text(rng), rng.choice((b"", R.encode_subscription(["a"]), G.g_bytes(rng, nullable=False))))
                  for _ in range(rng.choice((0, 1, 1, 2, 3)))]
        payload = C._JoinGroupRequest(group, st, member, ptype, [C._JoinGroupRequestProtocol(n, m) for n, m in protos])
        data = K.encode_join_group_request(cid, corr, payload)

        def cmp(parsed):
            b = parsed["body"]
            got = (b["group"], b["session_timeout"], b["member"], b["protocol_type"],
                   [(p["name"], p["metadata"]) for p in b["protocols"]])
            return None if got == (group, st, member, ptype, protos) else "%r != %r" % (
                got, (group, st, member, ptype, protos))
        return "join_group", 11, 0, corr, cid, data, cmp, True
    if which == 8:
        group, member, gen_id = G.g_text(rng), G.g_text(rng), G.g_int32(rng)
        data = K.encode_heartbeat_request(cid, corr, C._HeartbeatRequest(group, gen_id, member))
        return "heartbeat", 12, 0, corr, cid, data, (
            lambda p: None if (p["body"]["group"], p["body"]["generation"], p["body"]["member"]) ==
            (group, gen_id, member) else "body %r" % (p["body"],)), True
    if which == 9:
        group, member = G.g_text(rng), G.g_text(rng)
        data = K.encode_leave_group_request(cid, corr, C._LeaveGroupRequest(group, member))
        return "leave_group", 13, 0, corr, cid, data, (
            lambda p: None if (p["body"]["group"], p["body"]["member"]) == (group, member) else
            "body %r" % (p["body"],)), True
    if which == 10:
        group, member, gen_id = G.g_text(rng), G.g_text(rng), G.g_int32(rng)
        asg = [(G.g_text(rng), rng.choice((b"", R.encode_assignment([("t", [0])]), G.g_bytes(rng, nullable=False))))
               for _ in range(rng.choice((0, 1, 2, 4)))]
        payload = C._SyncGroupRequest(group, gen_id, member, [C._SyncGroupRequestMember(m, a) for m, a in asg])
        data = K.encode_sync_group_request(cid, corr, payload)

        def cmp(parsed):
            b = parsed["body"]
            got = (b["group"], b["generation"], b["member"], [(a["member"], a["assignment"]) for a in b["assignments"]])
            return None if got == (group, gen_id, member, asg) else "%r != %r" % (got, (group, gen_id, member, asg))
        return "sync_group", 14, 0, corr, cid, data, cmp, True
    if which == 11:
        data = K.encode_api_versions_request(cid, corr, C.ApiVersionRequest(K.API_VERSIONS_KEY, 0))
        return "api_versions", 18, 0, corr, cid, data, (lambda p: None), True
    if which == 12:
        topics = [rng.choice(G.TEXTS[1:]) if rng.random() < 0.2 else t for t in G.g_topics(rng)]
        ud = rng.choice((b"", b"ud", None))
        data = K.encode_join_group_protocol_metadata(0, topics, ud)
        return "subscription", None, None, None, None, data, (topics, ud), True
    # which == 14
    tps = {t: G.g_partitions(rng) for t in G.g_topics(rng)}
    ud = rng.choice((b"", b"ud", None))
    data = K.encode_sync_group_member_assignment(0, tps, ud)
    return "assignment", None, None, None, None, data, (tps, ud), True


def run_direct(spec, res):
    from afkak.kafkacodec import KafkaCodec as K
    from afkak import kafkacodec as KC
    from afkak import common as C
    rng = random.Random(spec["seed"])
    for it in range(spec["n"]):
        state = rng.getstate()
        res.n_sub += 1
        res.hit("direct_requests")
        try:
            name, api_key, version, corr, cid, data, cmp, nontrivial = gen_one(rng, it + spec["seed"], K, KC, C)
        except UnicodeEncodeError as e:
            res.violate("direct/encoder-raised/non-ascii-text-field", "an encoder raised UnicodeEncodeError for a "
                        "non-ASCII group / member / protocol name although the protocol type is a UTF-8 STRING: %s" % e,
                        it=it, seed=spec["seed"])
            continue
        except Exception as e:
            res.violate("direct/encoder-raised/%s" % type(e).__name__, "encoder raised %r on in-range arguments" % (e,),
                        it=it, seed=spec["seed"])
            continue
        res.hit("enc_" + name)
        if nontrivial:
            res.sigs.add(sig(name, data))
        if name == "subscription":
            try:
                p = R.parse_subscription(data)
            except R.ParseError as e:
                res.violate("direct/subscription/unparseable", str(e), data=data[:200])
                continue
            if (p["topics"], p["user_data"], p["version"]) != (cmp[0], cmp[1], 0):
                res.violate("direct/subscription/fields", "subscription blob differs", got=p, want=cmp)
            res.ob("direct_subscription")
            continue
        if name == "assignment":
            try:
                p = R.parse_assignment(data)
            except R.ParseError as e:
                res.violate("direct/assignment/unparseable", str(e), data=data[:200])
                continue
            if (dict((t, ps) for t, ps in p["topics"]), p["user_data"], p["version"]) != (cmp[0], cmp[1], 0):
                res.violate("direct/assignment/fields", "assignment blob differs", got=p, want=cmp)
            res.ob("direct_assignment")
            continue
        try:
            parsed = R.parse_request(data)
        except R.ParseError as e:
            msg = str(e)
            kind = "trailing-bytes" if "trailing" in msg else "unparseable"
            res.violate("direct/%s/%s" % (name, kind), "strict reference parser rejects the request: %s" % msg,
                        data=data[:200])
            res.ob("direct_" + name)
            continue
        hdr_check(res, name, parsed, api_key, version, corr, cid)
        d = cmp(parsed)
        if d:
            res.violate("direct/%s/fields" % name, "parsed body differs from the supplied values: %s" % d,
                        data=data[:200])
        res.ob("direct_" + name)
        if res.sample is None and name.startswith("produce"):
            res.sample = dict(kind="direct", encoder=name, bytes_hex=data[:100].hex(), parsed_header={
                k: parsed[k] for k in ("api_key", "api_version", "correlation_id", "client_id")})


def run(spec):
    res = Result()
    if spec["kind"] == "direct":
        run_direct(spec, res)
    else:
        from . import c04_e2e
        c04_e2e.run(spec, res)
    return res

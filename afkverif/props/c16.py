"""C16 -- generation fencing: no partition consumer outlives its group generation."""
import random

from .. import refproto as R
from ..core import Result, sig
from ..engines import grp

ID = "C16"
LEVEL = "exploration"
RULE = ("each evaluation is one group scenario (1-4 real ConsumerGroup members with their own clients against the "
        "simulated coordinator; members joining, leaving, being killed or evicted, coordinator moves, partition "
        "growth, rejected commits, slow processors, drawn latency) watched by an online monitor fed with every "
        "request a member issues, every reply it receives, every partition consumer constructed and every processor "
        "call; distinct = distinct (membership history, event-order signature); non-trivial = at least one rebalance "
        "after the first generation")
ASSUMPTIONS = ["a member 'has been told' generation g once the SyncGroup reply for g reached its client",
               "'evicted' = a JoinGroup/SyncGroup/Heartbeat of the member was answered IllegalGeneration or "
               "UnknownMemberId, or timed out; consumer activity in the same reactor event is not judged",
               "two members may both consume a partition across different generations (Kafka allows it); each member "
               "is fenced against its own current generation",
               "a Heartbeat between stop() and the LeaveGroup is tolerated; JoinGroup/SyncGroup after stop() are not",
               "progress committed before a rejoin is judged only for rejoins that were not caused by an eviction, "
               "and a commit the coordinator rejected or never answered exempts the partition"]
REACH_MIN = {"rebalances_after_first": {"quick": 150, "thorough": 1443},
             "joins_with_previous_consumers": {"quick": 100, "thorough": 962},
             "progress_commits_checked": {"quick": 60, "thorough": 577},
             "evictions_seen": {"quick": 40, "thorough": 384},
             "heartbeats_checked": {"quick": 2000, "thorough": 19243},
             "commits_checked": {"quick": 400, "thorough": 3848},
             "stops_checked": {"quick": 25, "thorough": 240},
             "leader_assignments_checked": {"quick": 150, "thorough": 1443},
             "start_positions_checked": {"quick": 200, "thorough": 1924}}

CONSUMER_APIS = ("Fetch", "OffsetFetch", "ListOffsets", "OffsetCommit")


STOP_APIS = ("FindCoordinator", "Metadata", "JoinGroup", "SyncGroup", "Heartbeat", "OffsetCommit", "OffsetFetch")


def cases(tier, seed):
    n = {"quick": 240, "thorough": 5000}[tier]
    out = []
    for i in range(n):
        out.append(dict(seed=seed * 1000003 + 1600000 + i, profile=("rebalance" if i % 5 else "grow")))
    # stop() injected right after the member issued the n-th request of a kind (so it lands while that request, or
    # the wait that follows it, is outstanding)
    k = 0
    for rep in range({"quick": 1, "thorough": 12}[tier]):
        for api in STOP_APIS:
            for nth in (0, 1, 2, 3):
                for delay in (0.0, 0.004):
                    out.append(dict(seed=seed * 1000003 + 1650000 + k, profile="stopat", api=api, nth=nth, delay=delay))
                    k += 1
    # the overlapping-error templates of C17 (a rejoin timer firing while a join is in progress) under this monitor
    from . import c17
    allc = c17.cases(tier, seed)
    tm = [c for c in allc if c.get("dense")]
    for c in tm[:{"quick": 60, "thorough": 1500}[tier]]:
        out.append(dict(seed=c["seed"], profile="c17", c17=c))
    # faults on the metadata loads of the join path (the second one is the leader's partition lookup)
    md = [c for c in allc if len(c["word"]) == 1 and c["word"][0][0] == "Metadata"]
    for c in md[:{"quick": 40, "thorough": 400}[tier]]:
        out.append(dict(seed=c["seed"], profile="c17", c17=c))
    return out


def gen(spec):
    if spec["profile"] == "c17":
        from . import c17
        return c17.build(spec["c17"])
    sc = grp.gen_scenario(spec["seed"], "rebalance")
    if spec["profile"] == "stopat":
        rng = random.Random(spec["seed"])
        sc["members"][0].update(start=0.0, stop=None, kill=None)
        sc["latency"] = rng.choice((0.005, 0.02))
        sc["horizon"] = 16.0
        sc["events"] = [e for e in sc["events"] if e[1] != "evict" or e[2] != 0]
    if spec["profile"] == "grow":
        # the same leader assigns twice with a partition added in between
        rng = random.Random(spec["seed"])
        sc["members"] = sc["members"][:2] if len(sc["members"]) > 1 else sc["members"] * 1
        if len(sc["members"]) == 1:
            m1 = dict(sc["members"][0])
            m1["name"] = "m1"
            sc["members"].append(m1)
        sc["members"][0].update(start=0.0, stop=None, kill=None)
        sc["members"][1].update(start=round(rng.uniform(4.0, 7.0), 3), stop=None, kill=None)
        for m in sc["members"]:
            m["topics"] = ["ga"]
        sc["events"] = [e for e in sc["events"] if e[1] == "append"] + [[round(rng.uniform(1.0, 3.0), 3), "grow", "ga"]]
        # ... and, in some, the second assignment happens while a partition has no leader, or while the topic's
        # metadata reports an error with only part of its partitions
        t_join = sc["members"][1]["start"]
        r = rng.random()
        if r < 0.3 and sc["topics"]["ga"] >= 2:
            sc["events"].append([round(t_join - rng.choice((0.2, 0.6)), 3), "leaderless", "ga",
                                 rng.randrange(sc["topics"]["ga"]), rng.choice((1.5, 3.0))])
        elif r < 0.6 and sc["topics"]["ga"] >= 2:
            keep = sorted(rng.sample(range(sc["topics"]["ga"]), rng.randint(1, sc["topics"]["ga"] - 1)))
            sc["events"].append([round(t_join - rng.choice((0.1, 0.3)), 3), "expanding", "ga", keep, rng.choice((0.6, 1.2))])
        sc["events"].sort(key=lambda e: e[0])
        sc["horizon"] = 14.0
    return sc


class Mon(object):
    """Online monitor; one per scenario."""

    def __init__(self, res, tr_box):
        self.res = res
        self.tr_box = tr_box
        self.st = {}

    def state(self, name):
        if name not in self.st:
            self.st[name] = dict(told=None, joining=False, evicted=None, stop=None, stop_done=None, leave=0,
                                 gen_calls={}, last_join_done=None, n_syncs=0, created={}, first_fetch={},
                                 rejected={}, stopped_self=False)
        return self.st[name]

    def on_event(self, tr, ev):
        name = ev["member"]
        if name is None:
            if ev["kind"] == "topic_grew":
                for s in self.st.values():
                    s["grew_since_join"] = True
            return
        m = tr.members[name]
        s = self.state(name)
        res = self.res
        k = ev["kind"]
        if k == "stop":
            s["stop"] = ev
            res.hit("stops_checked")
            return
        if k == "stop_fired":
            s["stop_done"] = ev
            return
        if k == "start_fired":
            s["stopped_self"] = True
            return
        if k == "consumer_created":
            self.on_created(tr, m, s, ev)
            return
        if k == "proc_begin":
            self.activity(tr, m, s, ev, "processor call", ev["topic"], ev["partition"])
            if s["stop_done"] is not None:
                res.violate("after-stop/processor-call-after-stop-completed", "a processor call began after the "
                            "Deferred returned by stop() had fired", member=name)
            return
        if k == "proc_end":
            c = ev["call"]
            key = (c["cid"], c["topic"], c["partition"])
            if c["offsets"]:
                s["gen_calls"][key] = c["offsets"][-1]
            return
        if k == "req":
            self.on_req(tr, m, s, ev)
        elif k == "req_done":
            self.on_done(tr, m, s, ev)

    # -- consumer activity -----------------------------------------------------------------------------
    def activity(self, tr, m, s, ev, what, topic, part):
        res = self.res
        told = s["told"]
        if told is None:
            res.violate("fence/consumer-activity-before-any-sync", "%s for %s/%d before the member completed a sync"
                        % (what, topic, part), member=m.name)
            return
        if s["joining"]:
            res.violate("fence/consumer-activity-after-join-was-written/%s" % what.split()[0], "%s for %s/%d after the "
                        "member's JoinGroup was written and before the next generation was synced"
                        % (what, topic, part), member=m.name, t=ev["t"], generation=told["generation"])
            return
        if s["evicted"] is not None and ev["step"] > s["evicted"]["step"] and what.split()[0] in ("processor", "Fetch"):
            # (a consumer that stop() is already shutting down gracefully may still finish with a commit, which the
            # coordinator then rejects; new deliveries and fetches are what shows a consumer that was not stopped)
            res.violate("fence/consumer-activity-after-eviction/%s" % what.split()[0], "%s for %s/%d after the member "
                        "learnt (%s) that it is no longer part of generation %d"
                        % (what, topic, part, s["evicted"]["why"], told["generation"]), member=m.name)
            return
        if part not in told["assignment"].get(topic, ()):
            res.violate("fence/activity-on-unassigned-partition", "%s for %s/%d, but generation %d assigned %r to "
                        "this member" % (what, topic, part, told["generation"], told["assignment"]), member=m.name)
        res.ob("consumer_activity_within_generation")

    def on_created(self, tr, m, s, ev):
        res = self.res
        told = s["told"]
        if told is None or s["joining"]:
            res.violate("fence/consumer-created-outside-a-synced-generation", "a partition consumer for %s/%d was "
                        "created while the member holds no synced generation" % (ev["topic"], ev["partition"]))
            return
        if ev["partition"] not in told["assignment"].get(ev["topic"], ()):
            res.violate("fence/consumer-for-unassigned-partition", "consumer created for %s/%d, assignment is %r"
                        % (ev["topic"], ev["partition"], told["assignment"]))
        if ev["generation"] != told["generation"] or ev["member_id"] != told["member_id"]:
            res.violate("fence/consumer-carries-wrong-generation", "consumer for %s/%d carries generation %r member "
                        "%r; the member was told generation %d member %r" % (
                            ev["topic"], ev["partition"], ev["generation"], ev["member_id"], told["generation"],
                            told["member_id"]))
        told["created"].add((ev["topic"], ev["partition"]))
        s["first_fetch"][(ev["topic"], ev["partition"])] = dict(stored=None, seen=False)
        res.ob("consumer_created_for_assigned_partition")

    # -- requests -------------------------------------------------------------------------------------
    def on_req(self, tr, m, s, ev):
        res = self.res
        api = ev["api"]
        r = ev["r"]
        if s["stop_done"] is not None and api != "?":
            res.violate("after-stop/request-after-stop-completed/%s" % api, "%s was issued after the Deferred "
                        "returned by stop() had fired" % api, member=m.name)
        if api in ("Fetch", "ListOffsets", "OffsetFetch"):
            for t_ in r["body"].get("topics", ()):
                for p_ in t_["partitions"]:
                    part = p_["partition"] if isinstance(p_, dict) else p_
                    if t_["topic"] in tr.sc["topics"] or True:
                        self.activity(tr, m, s, ev, "%s request" % api, t_["topic"], part)
                        if api == "Fetch":
                            ff = s["first_fetch"].get((t_["topic"], part))
                            if ff is not None and not ff["seen"]:
                                ff["seen"] = True
                                if ff["stored"] is not None and ff["stored"] >= 0:
                                    res.hit("start_positions_checked")
                                    if p_["offset"] != ff["stored"] + 1:
                                        res.violate("fence/consumer-does-not-start-at-committed-position", "the "
                                                    "group's committed offset for %s/%d was %d, the new consumer's "
                                                    "first fetch asks for %d" % (t_["topic"], part, ff["stored"],
                                                                                p_["offset"]))
                                    res.ob("starts_from_committed_position")
            return
        if api == "OffsetCommit":
            res.hit("commits_checked")
            told = s["told"]
            b = r["body"]
            for t_ in b["topics"]:
                for p_ in t_["partitions"]:
                    self.activity(tr, m, s, ev, "OffsetCommit request", t_["topic"], p_["partition"])
            if told is not None and (b["generation"] != told["generation"] or b["member"] != told["member_id"]):
                res.violate("fence/commit-carries-wrong-generation", "OffsetCommit carries generation %r member %r; the "
                            "member holds generation %d member %r" % (b["generation"], b["member"], told["generation"],
                                                                     told["member_id"]), member=m.name)
            res.ob("commit_carries_generation_and_member")
            return
        if api not in grp.GROUP_APIS:
            return
        out_js = [x for x in m.outstanding(("JoinGroup", "SyncGroup")) if x is not r]
        if api in ("JoinGroup", "SyncGroup"):
            if out_js:
                res.violate("exchange/two-join-or-sync-requests-in-flight", "%s issued while %s is outstanding"
                            % (api, out_js[0]["api"]), member=m.name)
            res.ob("one_exchange_at_a_time")
            if s["stop"] is not None:
                res.violate("after-stop/%s-after-stop" % api, "%s was issued %.3fs after stop() was called"
                            % (api, ev["t"] - s["stop"]["t"]), member=m.name)
        if api == "JoinGroup":
            self.on_join(tr, m, s, ev)
        elif api == "SyncGroup":
            self.on_sync_issue(tr, m, s, ev)
        elif api == "Heartbeat":
            res.hit("heartbeats_checked")
            told = s["told"]
            b = r["body"]
            if told is None:
                res.violate("heartbeat/before-first-sync", "Heartbeat issued before the member ever synced")
            elif s["joining"] or out_js:
                res.violate("heartbeat/while-joining", "Heartbeat (generation %r) issued while the member's %s"
                            % (b["generation"], "JoinGroup/SyncGroup is outstanding" if out_js else
                               "rejoin has been written and not yet synced"), member=m.name, t=ev["t"])
            elif s["evicted"] is not None and ev["step"] > s["evicted"]["step"]:
                res.violate("heartbeat/after-eviction", "Heartbeat issued after the member learnt (%s) that it was "
                            "evicted" % s["evicted"]["why"], member=m.name)
            elif b["generation"] != told["generation"] or b["member"] != told["member_id"]:
                res.violate("heartbeat/wrong-generation", "Heartbeat carries generation %r member %r, member holds "
                            "%d %r" % (b["generation"], b["member"], told["generation"], told["member_id"]))
            if [x for x in m.outstanding(("Heartbeat",)) if x is not r]:
                res.violate("heartbeat/two-in-flight", "a Heartbeat was issued while another is outstanding")
            if s["leave"]:
                res.violate("after-stop/heartbeat-after-leave", "Heartbeat issued after the LeaveGroup")
            res.ob("heartbeat_only_while_stable")
        elif api == "LeaveGroup":
            s["leave"] += 1
            if s["stop"] is None and not s["stopped_self"] and not self.self_stopping(m):
                res.violate("leave/without-stop", "LeaveGroup issued although stop() was not called")
            if s["leave"] > 1:
                res.violate("after-stop/second-leave", "a second LeaveGroup was issued")
            res.ob("single_leave_after_stop")

    def self_stopping(self, m):
        # a non-Kafka error makes the member stop itself (its start Deferred then fails)
        return getattr(m.group, "_stopping", False)

    def on_join(self, tr, m, s, ev):
        res = self.res
        told = s["told"]
        if told is not None:
            res.hit("rebalances_after_first")
        # nothing of the previous generation may still be running
        pending = [c for c in m.calls if c["done"] is None]
        if pending:
            res.violate("rejoin/join-written-while-a-processor-call-is-pending", "JoinGroup written while the "
                        "processor is still working on %s/%d offsets %r (generation %r)" % (
                            pending[0]["topic"], pending[0]["partition"], pending[0]["offsets"],
                            pending[0]["generation"]), member=m.name, t=ev["t"])
        outc = [x for x in m.outstanding(CONSUMER_APIS)]
        # a Fetch handed to a broker client in the very instant its consumer was being stopped is not held against
        # the member: when one metadata reply wakes several waiters in a single reactor turn and the first of them
        # (the leader's partition lookup) starts the rejoin, cancelling the other waiters' Deferred is a no-op -
        # Twisted does not cancel a Deferred that is already running its callbacks - and that waiter still issues its
        # request when its turn comes.  The consumer is stopped; the reply is dropped; a fetch has no effect.
        stop_instants = set(round(r_["done"]["t"], 9) for r_ in m.reqs if r_["api"] == "Fetch" and r_["done"] is not None
                            and r_["done"].get("failure") == "CancelledError")
        n_before = len(outc)
        outc = [x for x in outc if not (x["api"] == "Fetch" and round(x["t"], 9) in stop_instants)]
        if n_before != len(outc):
            res.hit("fetch_issued_in_the_instant_its_consumer_was_stopped", n_before - len(outc))
        if outc:
            res.violate("rejoin/join-written-with-consumer-request-outstanding/%s" % outc[0]["api"], "JoinGroup "
                        "written while a partition consumer's %s request is outstanding" % outc[0]["api"],
                        member=m.name, t=ev["t"])
        listed = sum(len(v) for v in (m.group.consumers or {}).values())
        if listed:
            res.violate("rejoin/join-written-with-consumers-listed", "JoinGroup written while %d partition "
                        "consumer(s) are still listed as running" % listed, member=m.name)
        started = [c for c in m.consumers if getattr(c["obj"], "_start_d", None) is not None]
        if started:
            res.violate("rejoin/join-written-with-started-consumer", "JoinGroup written while the consumer for %s/%d "
                        "(generation %r) is still started" % (started[0]["topic"], started[0]["partition"],
                                                               started[0]["generation"]), member=m.name)
        res.ob("no_consumer_running_at_join")
        if told is not None and told["created"]:
            res.hit("joins_with_previous_consumers")
            evicted = s["evicted"] is not None
            if not evicted:
                stored = tr.cluster.offsets
                for (topic, part) in sorted(told["created"]):
                    cids = [c for c in m.consumers if c["generation"] == told["generation"] and c["topic"] == topic
                            and c["partition"] == part and c["step"] >= told["step"]]
                    last = None
                    for c in cids:
                        v = s["gen_calls"].get((id(c["obj"]), topic, part))
                        if v is not None:
                            last = v if last is None else max(last, v)
                    if last is None:
                        continue
                    res.hit("progress_commits_checked")
                    have = stored.get((grp.GROUP, topic, part), (None, ""))[0]
                    mine = [r for r in m.reqs if r["api"] == "OffsetCommit" and r["done"] is not None
                            and r["done"]["ok"] and not r["done"]["srv_error"]
                            and r["body"]["generation"] == told["generation"]
                            and any(t_["topic"] == topic and any(p_["partition"] == part and p_["offset"] == last
                                                                 for p_ in t_["partitions"]) for t_ in r["body"]["topics"])]
                    if have == last or mine:
                        # (the coordinator may hold a later value committed by the partition's next owner)
                        res.ob("progress_committed_before_rejoin")
                        continue
                    rej = s["rejected"].get((topic, part))
                    if rej is not None and rej["gen"] == told["generation"]:
                        res.hit("progress_commit_rejected_exempt")
                        continue
                    res.violate("rejoin/progress-not-committed-before-rejoin", "generation %d: %s/%d was processed up "
                                "to offset %d, the coordinator holds %r when the member's next JoinGroup is written, "
                                "and no commit for it was rejected or lost" % (told["generation"], topic, part, last,
                                                                              have), member=m.name, t=ev["t"])
        s["joining"] = True
        s["grew_since_join"] = False

    def on_sync_issue(self, tr, m, s, ev):
        res = self.res
        b = ev["r"]["body"]
        if not b["assignments"]:
            if s.get("leader_of") == b["generation"] and any(tr.cluster.topic_partitions.get(t) for t in m.spec["topics"]):
                res.hit("leader_assignments_checked")
                res.violate("assignment/leader-assigned-nothing", "the member was told it leads generation %d but its "
                            "SyncGroup carries no assignment at all: every partition of the subscribed topics is left "
                            "to nobody" % b["generation"], member=m.name)
            return
        if s.get("grew_since_join"):
            res.hit("assignment_not_judged_partitions_changed_meanwhile")
            return
        res.hit("leader_assignments_checked")
        cl = tr.cluster
        subs = {}
        for a in b["assignments"]:
            mid = a["member"]
            nm = mid.split("-member-")[0]
            subs[mid] = set(tr.members[nm].spec["topics"]) if nm in tr.members else set()
        want = {}
        for mid, ts in subs.items():
            for t in ts:
                for p in cl.topic_partitions.get(t, ()):
                    want.setdefault((t, p), set()).add(mid)
        got = {}
        per_member = {}
        for a in b["assignments"]:
            try:
                dec = R.parse_assignment(a["assignment"])
            except Exception as e:
                res.violate("assignment/undecodable", "the leader's assignment for %s does not parse: %s" % (a["member"], e))
                continue
            per_member[a["member"]] = dec["topics"]
            for (t, parts) in dec["topics"]:
                for p in parts:
                    got.setdefault((t, p), []).append(a["member"])
        for tp, owners in got.items():
            if len(owners) > 1:
                res.violate("assignment/partition-given-twice", "%s/%d assigned to %r" % (tp[0], tp[1], owners))
            if tp not in want:
                res.violate("assignment/unknown-partition-assigned", "%s/%d is assigned but is not a partition of a "
                            "subscribed topic" % tp)
            elif owners[0] not in want[tp]:
                res.violate("assignment/given-to-unsubscribed-member", "%s/%d given to %s which is not subscribed"
                            % (tp[0], tp[1], owners[0]))
        missing = sorted(tp for tp in want if tp not in got)
        if missing:
            res.violate("assignment/partition-unassigned", "partitions %r of subscribed topics are assigned to nobody "
                        "(generation %d)" % (missing, b["generation"]), topics=dict(cl.topic_partitions))
        if len(set(frozenset(v) for v in subs.values())) == 1 and subs:
            counts = [sum(len(parts) for _, parts in per_member.get(mid, ())) for mid in subs]
            if counts and max(counts) - min(counts) > 1:
                res.violate("assignment/unbalanced", "identical subscriptions but partition counts %r" % counts)
        res.ob("leader_assignment_exact_cover")

    # -- replies --------------------------------------------------------------------------------------
    def on_done(self, tr, m, s, ev):
        res = self.res
        api = ev["api"]
        r = ev["r"]
        err = ev["srv_error"]
        if api == "OffsetFetch" and ev["ok"] and r["done"]["srv"] is not None:
            for x in r["done"]["srv"]["result"] or ():
                ff = s["first_fetch"].get((x["topic"], x["partition"]))
                if ff is not None and not ff["seen"] and x["error"] == 0:
                    ff["stored"] = x["offset"]
        if api == "OffsetCommit":
            srv = r["done"]["srv"]
            told = s["told"]
            bad = (not ev["ok"]) or (err not in (0, None)) or srv is None or srv.get("replied") != "sent"
            if bad and told is not None:
                for t_ in r["body"]["topics"]:
                    for p_ in t_["partitions"]:
                        s["rejected"][(t_["topic"], p_["partition"])] = dict(gen=r["body"]["generation"], err=err)
            if err in (22, 25) and told is not None and s["evicted"] is None and not s["joining"] \
                    and r["body"]["generation"] == told["generation"]:
                s["evicted"] = dict(step=ev["step"], t=ev["t"], why="OffsetCommit answered error %d" % err)
                res.hit("evictions_seen")
                res.hit("evictions_learnt_from_a_commit")
            return
        if api not in ("JoinGroup", "SyncGroup", "Heartbeat"):
            return
        if api == "JoinGroup" and ev["ok"] and err == 0 and r["done"]["srv"] is not None:
            jr = r["done"]["srv"]["result"]
            s["leader_of"] = jr["generation"] if jr.get("leader") == jr.get("member") else None
        evicting = (ev["ok"] is False and ev["failure"] == "RequestTimedOutError") or err in (22, 25)
        if evicting and s["told"] is not None and s["evicted"] is None and not s["joining"]:
            s["evicted"] = dict(step=ev["step"], t=ev["t"], why="%s answered %s" % (
                api, "error %d" % err if err in (22, 25) else "with a timeout"))
            res.hit("evictions_seen")
        if api == "SyncGroup" and ev["ok"] and err == 0:
            srv = r["done"]["srv"]
            blob = srv["result"]["assignment"] if srv is not None else b""
            try:
                dec = R.parse_assignment(blob) if blob else dict(topics=[])
            except Exception as e:
                res.violate("assignment/undecodable", "the assignment sent to %s does not parse: %s" % (m.name, e))
                dec = dict(topics=[])
            s["told"] = dict(generation=r["body"]["generation"], member_id=r["body"]["member"],
                             assignment=dict((t, list(ps)) for t, ps in dec["topics"]), step=ev["step"], seq=ev["seq"],
                             created=set())
            s["joining"] = False
            s["evicted"] = None
            s["n_syncs"] += 1
            s["check_created"] = s["told"]

    def settle(self, tr):
        """After the run: every synced generation that lasted created exactly its consumers."""
        res = self.res
        for name, s in self.st.items():
            m = tr.members[name]
            # walk syncs again from the events to compare created vs assigned
            told = None
            for ev in tr.events:
                if ev["member"] != name:
                    continue
                if ev["t"] >= tr.end_t - 1e-9:
                    break  # the harness stops every member at the end of the observation
                if ev["kind"] == "req_done" and ev["api"] == "SyncGroup" and ev["ok"] and ev["srv_error"] == 0:
                    told = dict(step=ev["step"], created=set(), assignment=None, ev=ev)
                    srv = ev["r"]["done"]["srv"]
                    blob = srv["result"]["assignment"] if srv is not None else b""
                    try:
                        dec = R.parse_assignment(blob) if blob else dict(topics=[])
                    except Exception:
                        dec = dict(topics=[])
                    told["assignment"] = set((t, p) for t, ps in dec["topics"] for p in ps)
                    told["checked"] = False
                elif told is not None and ev["kind"] == "consumer_created" and ev["step"] == told["step"]:
                    told["created"].add((ev["topic"], ev["partition"]))
                elif told is not None and not told["checked"] and ev["step"] > told["step"]:
                    told["checked"] = True
                    stopping = any(e2["kind"] in ("stop", "start_fired") and e2["member"] == name
                                   and e2["step"] <= told["step"] for e2 in tr.events)
                    if not stopping and told["created"] != told["assignment"]:
                        res.violate("assignment/member-does-not-run-what-it-was-assigned", "the member was sent %r "
                                    "and created consumers for %r" % (sorted(told["assignment"]),
                                                                      sorted(told["created"])), member=name)
                    res.ob("member_runs_exactly_its_assignment")


def run(spec):
    res = Result()
    sc = gen(spec)
    box = []
    mon = Mon(res, box)
    hook = mon.on_event
    if spec["profile"] == "stopat":
        seen = [0]

        def hook(tr_, ev):
            mon.on_event(tr_, ev)
            if ev["member"] == "m0" and ev["kind"] == "req" and ev["api"] == spec["api"]:
                seen[0] += 1
                if seen[0] - 1 == spec["nth"]:
                    tr_.w.clock.labelled(spec["delay"], "act.stop.m0", tr_.members["m0"].do_stop)
    if spec["profile"] == "c17":
        from . import c17
        m17 = c17.Mon(Result(), spec["c17"])  # only for its fault-chaining side (rules installed on heartbeats)

        def hook(tr_, ev):  # noqa: F811
            mon.on_event(tr_, ev)
            m17.on_event(tr_, ev)
    tr = grp.run_scenario(sc, hooks=dict(event=hook))
    if tr.capped:
        res.inconclusive.append("scenario aborted: %s" % getattr(tr, "cap_reason", "?"))
        return res
    mon.settle(tr)
    for (t, label, typ, tb) in tr.clock_errors:
        res.violate("escape/exception-escaped-a-reactor-event/%s" % typ, "%s escaped the reactor event %s" % (typ, label),
                    tb=tb[-700:])
    for u in tr.unhandled:
        res.ev("unhandled_failure:%s" % str(u)[:60])
    res.n_sub += 1
    hist = []
    for ev in tr.events:
        if ev["kind"] in ("start", "stop", "killed", "evicted_by_script") or (
                ev["kind"] == "req" and ev["api"] in ("JoinGroup", "LeaveGroup")):
            hist.append("%s:%s" % (ev["member"], ev.get("api", ev["kind"])))
    n_reb = sum(1 for ev in tr.events if ev["kind"] == "req" and ev["api"] == "JoinGroup")
    if n_reb > len(tr.members):
        res.sigs.add(sig("c16", tuple(hist), tuple(sorted(sc["topics"].items()))))
    if res.sample is None:
        res.sample = dict(history=hist[:40], members={n: dict(requests=len(m.reqs), processor_calls=len(m.calls),
                                                              consumers=len(m.consumers))
                                                     for n, m in tr.members.items()},
                          group_states=[(round(e["t"], 3), e["state"], e["generation"]) for e in tr.cluster.history
                                        if e.get("api") == "_group_state"][:14])
    return res

"""Shared plumbing: result containers, JSON-safe conversion, signatures."""
import hashlib
import json
import os
import random
import sys

VERIF_DIR = os.path.dirname(os.path.dirname(os.path.abspath(__file__)))


def afkak_src():
    return os.environ.get("AFKAK_SRC", "/repo")


def ensure_afkak_on_path():
    src = afkak_src()
    if sys.path[0] != src:
        if src in sys.path:
            sys.path.remove(src)
        sys.path.insert(0, src)


def jsafe(o, depth=0, limit=400):
    """Best-effort conversion to something json.dump accepts (bounded)."""
    if depth > 8:
        return repr(o)[:limit]
    if o is None or isinstance(o, (bool, int, float)):
        return o
    if isinstance(o, str):
        return o if len(o) <= limit else o[:limit] + "...(%d)" % len(o)
    if isinstance(o, (bytes, bytearray)):
        r = repr(bytes(o[:limit]))
        return r if len(o) <= limit else r + "...(%d)" % len(o)
    if isinstance(o, dict):
        out = {}
        for i, (k, v) in enumerate(o.items()):
            if i >= 60:
                out["..."] = "%d more" % (len(o) - 60)
                break
            out[str(k) if not isinstance(k, str) else k] = jsafe(v, depth + 1, limit)
        return out
    if isinstance(o, (list, tuple, set, frozenset)):
        seq = list(o)
        out = [jsafe(v, depth + 1, limit) for v in seq[:60]]
        if len(seq) > 60:
            out.append("... %d more" % (len(seq) - 60))
        return out
    return repr(o)[:limit]


def sig(*parts):
    h = hashlib.sha1()
    for p in parts:
        h.update(repr(p).encode("utf-8", "replace"))
        h.update(b"\0")
    return h.hexdigest()[:16]


def derive_seed(*parts):
    return int(hashlib.sha1(("/".join(str(p) for p in parts)).encode()).hexdigest()[:12], 16)


def rng_for(*parts):
    return random.Random(derive_seed(*parts))


class Result(object):
    """What running one case produced."""

    def __init__(self):
        self.violations = []  # dicts: key, msg, witness
        self.obligations = {}  # clause -> number of non-vacuous checks made
        self.reach = {}  # name -> count
        self.sig = None  # distinctness signature of the case; None = trivial
        self.sigs = set()  # for cases that batch many sub-cases: one signature per non-trivial sub-case
        self.n_sub = 0  # number of sub-cases evaluated (0 = the case itself is the unit)
        self.sample = None
        self.inconclusive = []  # reasons
        self.events = {}  # kind -> count of observed events

    def ob(self, clause, n=1):
        self.obligations[clause] = self.obligations.get(clause, 0) + n

    def hit(self, name, n=1):
        self.reach[name] = self.reach.get(name, 0) + n

    def ev(self, kind, n=1):
        self.events[kind] = self.events.get(kind, 0) + n

    def violate(self, _vkey, _msg, **witness):
        # one entry per key per case is enough; keep the first witness
        for v in self.violations:
            if v["key"] == _vkey:
                v["count"] = v.get("count", 1) + 1
                return
        self.violations.append(dict(key=_vkey, msg=_msg, witness=jsafe(witness)))

    def to_json(self):
        return dict(violations=self.violations, obligations=self.obligations, reach=self.reach, sig=self.sig,
                    sigs=sorted(self.sigs), n_sub=self.n_sub,
                    sample=jsafe(self.sample), inconclusive=self.inconclusive, events=self.events)


def dump(obj, path):
    tmp = path + ".tmp"
    with open(tmp, "w") as f:
        json.dump(obj, f, indent=1, sort_keys=True)
    os.replace(tmp, path)

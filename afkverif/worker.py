"""Runs one shard of cases of one property in a fresh process."""
import gc
import importlib
import json
import random
import signal
import sys
import time
import traceback

from .core import Result, ensure_afkak_on_path, dump


class CaseTimeout(Exception):
    pass


_state = {"fired": 0, "spec": None}


def _alarm(signum, frame):
    # The first alarm raises into the running case.  Code under test may swallow that (a Deferred callback chain
    # does); if the case is still running at the second alarm it is hung inside one reactor event: give up on the
    # shard at once and say which case it was, instead of waiting for the parent's watchdog.
    _state["fired"] += 1
    if _state["fired"] >= 2:
        import os
        sys.stderr.write("HUNG-CASE %s\n" % json.dumps(_state["spec"], default=str)[:600])
        sys.stderr.flush()
        os._exit(97)
    signal.alarm(20)
    raise CaseTimeout()


def run_shard(prop, specs, case_timeout, keep_samples=2, debug=False):
    ensure_afkak_on_path()
    mod = importlib.import_module("afkverif.props.%s" % prop.lower())
    import afkak
    from .core import afkak_src
    import os
    if not os.path.realpath(afkak.__file__).startswith(os.path.realpath(afkak_src()) + os.sep):
        raise RuntimeError("afkak imported from %s, not from %s" % (afkak.__file__, afkak_src()))
    out = []
    signal.signal(signal.SIGALRM, _alarm)
    if hasattr(mod, "setup_worker"):
        mod.setup_worker()
    for n, spec in enumerate(specs):
        random.seed(spec.get("seed", 0))
        t0 = time.time()
        _state["fired"] = 0
        _state["spec"] = spec
        signal.alarm(case_timeout)
        try:
            res = mod.run(spec) if not debug else mod.run(dict(spec, debug=True))
        except CaseTimeout:
            res = Result()
            res.inconclusive.append("case-timeout after %ds wall clock" % case_timeout)
        except Exception:
            res = Result()
            res.inconclusive.append("harness-error: " + traceback.format_exc(limit=20)[-3000:])
        finally:
            signal.alarm(0)
        j = res.to_json()
        j["i"] = spec.get("i")
        j["wall"] = round(time.time() - t0, 4)
        if n >= keep_samples and not j["violations"]:
            j["sample"] = None
        out.append(j)
        if n % 50 == 49:
            gc.collect()
    return out


def main(argv):
    prop, shard_path, out_path = argv[1:4]
    with open(shard_path) as f:
        shard = json.load(f)
    res = run_shard(prop, shard["specs"], shard.get("case_timeout", 60), debug=shard.get("debug", False))
    dump(dict(results=res), out_path)


if __name__ == "__main__":
    main(sys.argv)

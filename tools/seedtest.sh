#!/bin/sh
# usage: tools/seedtest.sh <patch.diff> <PROP> [PROP...]   (env TIER=quick|thorough)
# Applies the patch to a scratch worktree of /repo's HEAD (outside /repo and /verif),
# runs the named checks against it via AFKAK_SRC, removes the worktree.
patch="$(readlink -f "$1")"; shift
wt=/tmp/afkverif-seed.$$
git -C /repo worktree add -q --detach "$wt" HEAD || exit 3
if ! git -C "$wt" apply "$patch" 2>/dev/null; then
  if ! git -C "$wt" apply -3 "$patch" 2>/dev/null; then
    echo "PATCH-DOES-NOT-APPLY $patch"; git -C /repo worktree remove --force "$wt"; exit 4
  fi
fi
rc=0
for p in "$@"; do
  AFKAK_SRC="$wt" /venv/bin/python -m afkverif.check "$p" --tier "${TIER:-quick}" --no-evidence 2>&1 | grep -E "^(VIOLATION|HELD|INCONCLUSIVE|KNOWN-FINDING|  key=)" | head -${LINES_MAX:-8}
done
git -C /repo worktree remove --force "$wt"

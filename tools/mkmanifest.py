#!/usr/bin/env python3
"""Regenerates MANIFEST.json from the table below (single source of truth)."""
import json, os, sys
HERE = os.path.dirname(os.path.dirname(os.path.abspath(__file__)))
PY = "/venv/bin/python"

CHECKS = {
 # id: (engine, category, technique, level text, level note, design ref)
 "C04": ("codec+e2e", "exploration",
         "strict independent wire parser as oracle on every emitted request (differential monitoring)",
         "Every request encoder is called with generated boundary-heavy arguments and every frame the simulated brokers receive in end-to-end runs is parsed by an independent strict implementation of the protocol grammar and compared field by field with what the caller supplied; version selection is observed in end-to-end producer+consumer runs against generated ApiVersions tables (dense, full, unordered, sparse) and brokers that close, ignore or reject version discovery: ApiVersions precedes the first Produce/Fetch, the version sent is advertised for that API and implemented, v0 after failed discovery, and the replies are decoded correctly (offsets, keys, delivered stream); also discovery that is lost after it had succeeded (the retry of an unanswered produce request keeps its version) and clients whose correlation ids cross the int32 limit. Two defects found there were fixed in /repo. Held = on the executions produced; sampling, not proof.",
         "trusts afkverif/refproto.py (written from the protocol guide, self-tested, shares no code with afkak); snappy not installed", "3/C04"),
 "C05": ("codec", "exploration",
         "differential monitoring: independent reference encoder -> afkak decoders; round-trip law",
         "Generated well-formed responses of every supported API/version and message sets (both magics, gzip incl. multi-member streams, nesting, empty wrappers, wrappers stamped LogAppendTime, the same format-1 wrapper appended twice at different offsets; partial trailing messages inside fetch responses) are produced by the independent encoder and decoded by afkak; equality of every field, plus encode/decode identity and afkak-encode -> reference-decode agreement.",
         "trusts refproto encoders; nested wrappers only in magic 0; snappy not installed", "3/C05"),
 "C12": ("codec", "fault_enumeration",
         "fault injection on encoded data (all bit flips, bursts, truncations) with exception/step/allocation monitors",
         "Per generated message set every single-bit flip of every top-level message and every truncation point is enumerated, bursts <= 32 bits are sampled, and arbitrary/mutated/hostile byte strings are fed to every decoder under a sys.monitoring line counter and tracemalloc; exhaustive per set, sets sampled. Also alterations of a message inside a compressed wrapper whose own CRC is valid (re-compressed, re-wrapped), and fetch-size growth cases at the consumer; hostile values in two count/length fields at once (every field pair of tiny valid responses, random position pairs); every cut point of a set also as the record data of a partition that other partitions follow in a fetch response.",
         "CRC-32 burst-detection theory for the oracle; linear resource bound constants 60 lines/byte and 64 B/byte (+fixed) calibrated at >20x the valid-input maximum", "3/C12"),
 "C15": ("pure", "exploration",
         "runtime oracle over real assignor + independent decoder; small configuration space enumerated",
         "Generated member sets / subscriptions / partition maps are run through the real join_group_protocols -> generate_assignments -> decode_assignment in several permutations; exact cover, subscribed-only, balance, permutation invariance, decode=assign checked on each; all configurations up to 3 members x 2 topics x 3 partitions enumerated in thorough. Also on live groups (the C16 monitor's assignment clauses): the same leader assigning again after partitions were added, a failed partition lookup by the leader (an empty assignment is a violation), and each member creating exactly the consumers it was assigned; subscription lists that repeat a topic; a partition that is leaderless, or a topic that expands (first announced with an error code), when the second assignment is computed.",
         "every member subscribes to >= 1 topic; partition map complete after the _NeedTopicPartitions retry", "3/C15"),
 "C18": ("pure", "exploration",
         "differential monitoring against Java (JVM), C and Python reference Murmur2; window-fairness monitor over selection histories",
         "Generated keys (all lengths mod 4, high bytes in every tail position, long, unicode) hashed by afkak and by three independent references that are first checked against the published Kafka vectors; HashedPartitioner result compared with toPositive(h) % n in Java semantics; RoundRobinPartitioner histories with list changes checked for exact fairness in every window.",
         "Java/C references built offline by setup.sh (falls back to the Python transcription, and says so); C murmurhash2 extension absent so only the pure-Python hash runs", "3/C18"),
}

CHECKS.update({
 "C06": ("brokerclient", "exploration",
         "history monitor at the client boundary (one recorder per request Deferred + AlreadyCalledError trap) against the server's frame log; differential re-run for non-interference",
         "The real _KafkaBrokerClient/KafkaProtocol and KafkaBootstrapProtocol run over an in-memory network against a scripted raw server (late, duplicate, swapped, unsolicited and oversize frames; arbitrary chunking; cuts; cancels, disconnect, close, also from inside completion callbacks). Each request must fire exactly once with the first delivered frame bearing its id, or with CancelledError/ClientError for the right reason; removing unsolicited frames from the plan must not change any outcome; a request pending although the server answered everything and accepted every connection for 60 s is a violation. Also requests the transport cannot write (must fail once, siblings untouched) and request-table situations generated on purpose: a connection lost while cancelled entries sit among live ones, close() failing unsent requests whose callbacks cancel siblings or close again, a request / cancel / close() in the reactor turn right behind disconnect(), a queue flushed on connect whose no-reply requests cancel or disconnect from their callbacks, correlation ids at the edges of int32 and frames too short to carry one; on a TLS-like transport (deliveries continue after loseConnection) a reply right behind disconnect() and frame-shaped bytes behind an impossible length prefix; the only request cancelled while its connection is still being set up.",
         "simnet models Twisted TCP transport semantics (no dataReceived after loseConnection, writes in the same turn still flushed); bootstrap protocol exempt from non-interference by design", "3/C06"),
 "C10": ("brokerclient", "fault_enumeration",
         "online trace checker replayed over the unified event log (issues, cancels, fires, attempts, per-connection writes, losses, quiescent points); cut points enumerated",
         "Same engine as C06. A model of 'live' requests is updated event by event: every write must be a live request, once per connection, re-sent ones in issue order; at every quiescent point a live request implies a connection carrying it, an attempt, or a back-off whose length equals the injected policy f(n); nothing is dialled when idle or after close; close's Deferred fires once after the connection is gone. Every byte offset of the first connection in both directions, cuts while connecting and during back-off 1..3 are enumerated on small scripts, also under configured back-offs of 16..62 s; the hand-shaped request-table situations of C06 run under this monitor too; a request whose complete reply was delivered is never written again.",
         "order is required among re-sent requests only (what the statement says); a running back-off loop is allowed to continue after its last request is cancelled", "3/C10"),
})

CHECKS.update({
 "C07": ("client-e2e", "exploration",
         "per-broker request log of the simulated cluster + spy on the client's per-broker dispatch, compared with the metadata served and with the call's result",
         "The real KafkaClient (real broker clients, protocol, codec) runs against the simulated cluster; sequential client calls of every kind with shuffled payload lists meet drawn subsets of refusing / dropping / silent / late brokers. Routing (leader named by a metadata served to this client; coordinator named by the last FindCoordinator answer; one request per broker, each payload once), result order, exact accounting of FailedPayloadsError, acks=0 success implies written, broker-agnostic requests try connected-at-call-time brokers first, then all known, then every bootstrap host. Also: after a broker came back at another address and a full refresh said so, a dial to the superseded address with the payload not arriving is a violation.",
         "calls are sequential inside a scenario; the routing instant is 'any metadata view current during the call' (weaker reading, see DESIGN); cluster model per DESIGN 2.3", "3/C07"),
})

CHECKS.update({
 "C11": ("client-e2e", "exploration",
         "timing monitor at the wrapped _make_request_to_broker boundary on a virtual clock + timer-count invariant at every quiescent point + differential re-run without late replies",
         "Requests of mixed kinds (incl. JoinGroup with its 35 s minimum) are answered promptly, late by drawn factors of the timeout (0.5 .. 3), or never, with brokers whose connections never establish and with disconnect-on-timeout on/off. Every per-broker request must resolve by issued+T, exactly at issued+T with RequestTimedOutError when no reply was delivered in time, at delivery time otherwise; armed timeout timers must equal outstanding requests after every event; removing late replies must change nothing; the silent connection is dropped at the timeout and its other requests reach the broker again. Also: every request that reaches a broker client (brokerclient.makeRequest watched) either has a timed record or resolves within the timeout; version discovery retrying under one correlation id with late replies. The timeout in force is derived from the request kind (JoinGroup: max(client timeout, 35 s)); the join is sent by a real Coordinator whose session timeout is drawn; client timeouts above that minimum are included.",
         "virtual time: verdicts never depend on wall clock; exact ties between reply and timer accept either outcome", "3/C11"),
})

CHECKS.update({
 "C20": ("client-e2e", "exploration",
         "fault/close-point injection: close() injected after a drawn event index (stratified by client state seen in a close-free baseline run, also from inside completion callbacks) with monitors on operation Deferreds, simnet's attempt and write logs, and the reactor's delayed calls",
         "A generated client workload is run once without close() to count events and to survey the states it passes through, then re-run with close() at drawn points. Checked: operations pending at close have failed by the end of that reactor event, new operations fail, no connection attempt or write after the close() call, the close Deferred fires exactly once and only when simnet shows no open connection or pending attempt, metadata maps are empty right after and at the end, no afkak delayed call survives. Workloads include callbacks that cancel an earlier operation when a later one fails, connection attempts that fail synchronously (cancelled ones fail with ConnectingCancelledError or CancelledError, as real endpoints do) and overlapping broker-removal rounds; a broker-agnostic request that still has untried brokers at close() must fail by the end of that reactor event. Two genuine defects are listed in known_findings.json by mechanism; any other violation exits 1.",
         "one client per world; double close() not generated; the listed bootstrap finding covers a late reply naming no broker (a merged late reply that names brokers is reported)", "3/C20"),
})

CHECKS.update({
 "C01": ("producer-e2e", "exploration",
         "history checker: one recorder per send Deferred (plus AlreadyCalledError trap) against the cluster's applied/acknowledged produce log with unique per-send keys and values",
         "The real Producer -> KafkaClient -> broker clients -> codec stack runs against the simulated cluster under generated configurations (acks 0/1/-1, batched or not, gzip, attempt limits, both message formats) and fault plans (error codes, per-partition errors, silent/dropping brokers with the write applied or not, late replies, leader moves, restarts, client close, unroutable topic). Every send must fire exactly once by a computed horizon; success requires an error-free acknowledgement, delivered before the firing, from the partition's leader at apply time for a request containing exactly its messages (acks=0: written before the firing); anything else must be a failure. Also a cached leader that has become unreachable for good (acks 0 and 1) and a cancelled send whose partition lookup fails inside a batch.",
         "leader truth is the cluster model's; sends still queued below thresholds with no time limit are C19's subject", "3/C01"),
 "C09": ("producer-e2e", "exploration",
         "trace checker over the produce requests in the order the client wrote them (parsed by the independent codec), the responses delivered, producer batch hand-overs, client-call counts and retry timers",
         "Same engine plus a zero-latency timing workload and a mixed-outcome workload (one batch over several leaders, first attempt partially failing, leader going away before the retry, client closed mid-retry). Checked: order and contiguity inside payloads and in the final logs, one payload per attempt, no batch handed to the client while an earlier one is unresolved, a payload whose error-free acknowledgement was received is never written again and is reported before the batch's next attempt, attempts (on the wire and at the producer->client boundary) never exceed the maximum, retry delays geometric from the configured interval (zero included) and reset when the batch resolves. Also acks=0 batches meeting an unreachable cached leader: a written payload is neither re-sent nor held back until the sibling's retry.",
         "observes Producer._send_requests / _complete_batch_send / client.send_produce_request and the reactor's callLater through harness wrappers; traffic after stop() is left to C19", "3/C09"),
})

CHECKS.update({
 "C19": ("producer-e2e", "exploration",
         "reference-model monitor: the queue is re-computed from caller-side events only and compared with every batch the producer takes (hook on Producer._send_batch) and with its counters at every quiescent point",
         "Batching scenarios on warm metadata and zero latency: every batch taken must be exactly the queued, not-cancelled sends and be justified by a met count/byte threshold or a timer tick with nothing in flight; at every quiescent point the waiting counters equal the queue and a met threshold with nothing in flight is a missed dispatch; once a batch has resolved every send dispatched in it and not cancelled has its result (sends cancelled in flight beside siblings sharing their partition); the same message sent twice with one copy withdrawn before dispatch: copies on the wire = copies not withdrawn; with a time limit nothing waits more than one period beyond the in-flight batch; cancel before dispatch keeps the messages off the wire, cancel/stop fail with a cancellation error at once, and nothing is taken or written after stop().",
         "reads Producer._batch_reqs/_waitingMsgCount/_waitingByteCount/_batch_send_d (missing attribute => inconclusive)", "3/C19"),
})

CHECKS.update({
 "C02": ("consumer-e2e", "exploration",
         "history checker: processor invocations (offset, key, value; overlap) against the partition log generated as data, with segment boundaries derived from what the cluster answered",
         "The real Consumer -> KafkaClient stack consumes logs generated as data (compaction gaps, plain and gzip batches in both message formats, oversized records, log start > 0, appends, retention) from numeric/earliest/latest/committed positions, with sync/async/chained processors, commits, stop+restart, and faults on every request kind plus leader moves. Delivered offsets must equal the log from the resolved position, strictly increasing without omission or repeat, with the stored key/value; never overlapping; discontinuities only at a reset-policy firing or a restart; a healthy idle consumer with records left is a violation, and so is one that re-sends one fetch hundreds of times in zero virtual time. Logs also hold compressed wrappers with nothing left in them, preferably in front of a record that does not fit the buffer. Also fetch replies damaged in transit (good prefix, bad last message) and a restart of the same consumer after a shutdown whose commit was refused. One more defect found there was fixed in /repo.",
         "unique (key,value) per offset; resolved start = the cluster's own ListOffsets/OffsetFetch answer; slow-but-active is recorded, not judged", "3/C02"),
 "C13": ("consumer-e2e", "exploration",
         "stop-point injection: stop()/shutdown() after a drawn reactor event of each situation surveyed in a stop-free baseline run (also from inside the processor and from the start errback), then restart; monitors on processor calls, client writes, delayed calls and the start/shutdown Deferreds",
         "After stop() returned: no processor call, no Fetch/ListOffsets/OffsetFetch/OffsetCommit frame written until the restart, no delayed call bound to the consumer; stop() returns normally; the start Deferred fires exactly once with the offset (or with an earlier unrecoverable failure, never with the echo of stop's own cancellations); shutdown's Deferred fires once, no processor call begins after it was requested, committed == processed == coordinator's stored offset on success; a restarted consumer delivers again (also when restarted at an EARLIER explicit offset and shut down a second time: that shutdown commits what the second run processed). Ten defects found here were fixed in /repo; one is listed as known. Also shutdown() pre-empted by stop() and shutdown() whose commit the coordinator refuses, at surveyed points, each followed by a restart.",
         "situations classified from Consumer attributes (stratification only); the C02 stream oracle stays on", "3/C13"),
 "C08": ("client-e2e", "exploration",
         "online monitor wrapped around the real client's metadata merge (harness-side): every metadata response, as recorded by the simulated cluster and paired by correlation id, is compared with the client's view right after it was merged, across generated histories of cluster mutations, refreshes and requests; connect hook on the simulated network for dialled addresses; wire inspection after not-leader / unknown-partition answers and failed sends; producer + consumers under finite fault sequences with bounded-recovery oracle",
         "After each metadata response: partitions, leader (node, host, port) per partition, topic error and broker addresses of every covered topic equal the response, no stale partition entry survives, topics not in the response are unchanged, and after a full refresh that lists brokers every broker client for a missing node is gone from client.clients, its connection was asked to close (or its pending connect cancelled) within that reactor event and it never dials again; every later dial of a broker client goes to the address last advertised for its node. After a not-leader/unknown-partition answer (also behind another error in the same response list) or a failed send (also acks=0) a metadata request covering the topic is on the wire before the next request for it, which then goes where that answer says. After any generated finite sequence of leader moves, broker restarts and address changes: sends issued later succeed within max_req_attempts produce attempts, every acknowledged send is in the log, and each consumer's deliveries equal its partition log within 40 virtual seconds. Also the group's coordinator as cached routing: after a failed send to it the next group request is preceded by a lookup and follows it; a coordinator left out of a full refresh is still reached; a coordinator readdressed and announced by a lookup is dialled at the new address; a failed lookup repeated from its own errback is a new lookup on the wire. One defect found here was fixed in /repo.",
         "a response never names a leader missing from its own broker list; topics absent from a full refresh are not judged; one bootstrap address stays reachable", "3/C08"),
 "C16": ("group-e2e", "exploration",
         "online trace monitor over 1-4 real ConsumerGroup members (own clients) against the simulated group coordinator: every request stamped where the member's client issues it, every reply where it reaches the client, every partition consumer where afkak._group constructs it (recording subclass installed from the harness), every processor call; membership histories with joins, stops, silent kills, evictions, coordinator moves, partition growth, rejected commits and slow processors",
         "Per member: consumer activity (processor call, Fetch/ListOffsets/OffsetFetch/OffsetCommit) only for partitions of the assignment it was sent for the generation it holds, never between its JoinGroup being written and the next synced generation, never after the event that told it it was evicted; consumers and commits carry that generation and member id; a new consumer's first fetch is the group's committed offset + 1; when JoinGroup is written no processor call is pending, no consumer request is outstanding, no consumer is listed or started, and (unless evicted or the commit was rejected/lost) the coordinator holds the last processed offset of every partition of the previous generation; never two Join/Sync in flight; heartbeats only with a synced generation, never while joining or after eviction, one at a time; after stop(): no JoinGroup/SyncGroup, one LeaveGroup, nothing after the stop Deferred fired; every leader assignment covers each partition of each subscribed topic exactly once among subscribers, balanced for identical subscriptions, and each member creates exactly the consumers it was assigned. Three defects found here were fixed in /repo.",
         "told-generation = SyncGroup reply delivered; eviction notice = Join/Sync/Heartbeat/OffsetCommit answered 22/25 or a group request timing out; a heartbeat between stop() and the leave is tolerated", "3/C16"),
 "C17": ("group-e2e", "fault_enumeration",
         "fault words (request kind x occurrence x failure kind: every group error code, time-out, disconnect, malformed reply, late answer, processor failure, an undecodable foreign subscription) injected on a live group member's coordinator lookup, metadata loads, JoinGroup, SyncGroup, Heartbeat and its consumers' OffsetFetch/OffsetCommit; all singles, pairs enumerated (thorough) or sampled (quick), longer words and overlapping-error templates; an online monitor evaluates a never-idle predicate over requests outstanding, the injected reactor's delayed calls, pending connects and heartbeats on the wire at every quiescent point",
         "While started and not stopped and with the start Deferred unfired, at every quiescent point something attributable to the member is pending: a lookup/join/sync/leave request, a delayed call of its join_and_sync, heartbeats on the wire while the last membership outcome it was told is a success, shutdown work of its partition consumers, a client retry timer or connection attempt (a violation needs the predicate false for 8 virtual seconds without a single lookup/group request). On a zero-latency network the rejoin timer armed by a clean error is due after a documented back-off (retry for 27/16/15/22/25, fatal for a timed-out group request, initial for a failed lookup). A processor failure fails the start Deferred. 12 virtual seconds after the last fault the coordinator lists the member in a Stable group and its assigned partitions are being fetched. Templates include a commit answered late and refused while the rebalance waits for that consumer, and a timed-out heartbeat during a held rejoin followed by another rebalance. One defect was fixed in /repo (Kafka errors escaping the join), its non-Kafka half is a known finding.",
         "idle is judged from outside (see ASSUMPTIONS in the evidence); a malformed reply may legitimately either fail start() or cause a rejoin", "3/C17"),
 "C03": ("consumer-e2e", "fault_enumeration",
         "offline checker over the recorded commit history (every OffsetCommit the coordinator received vs. the processor-completion events before it) plus crash-point enumeration: the process is killed after the k-th client write for every k (sampled above 60 writes), a fresh consumer resumes from OFFSET_COMMITTED and its first delivery is compared with the coordinator's stored offset",
         "Every committed value equals the offset of the last message whose processing had completed when the commit was issued (never behind, never ahead, never re-sent once acknowledged); last_committed_offset is an acknowledged value at every quiescent point; after a kill at any write, the fresh consumer's first delivered offset is stored+1 (the next existing offset) so that at most the un-committed tail is redelivered and nothing is skipped. One defect (processing continues after a processor failure, so a later commit covers the failed message) is listed as known.",
         "process death = every connection severed and every delayed call dropped at once; restarts in the generated scenarios resume from the committed offset", "3/C03"),
 "C14": ("consumer-e2e", "fault_enumeration",
         "failure/success words over {retriable error, timeout, OffsetOutOfRange, success} applied to the consumer's successive fetch or offset-lookup requests on a zero-latency network (all words up to length 7 in thorough), monitors on request times at the broker, the start Deferred and delivered messages; buffer-growth scenarios with record sizes straddling the initial buffer, 1 MiB and the maximum",
         "Gap between a failure becoming known and the next request: the initial delay after a success, then growing geometrically by one constant factor, never beyond the maximum; with a limit n the start Deferred has failed by the n-th consecutive failure and nothing is sent afterwards; without one the consumer is still retrying after 40 failures; OffsetOutOfRange is followed by a ListOffsets for the policy's position and the fetch resumes at its answer, or fails the start Deferred with OffsetOutOfRangeError and stops fetching when no policy is set; max_bytes for an oversized record grows x16 up to 1 MiB then x2, clipped to the maximum; the record is delivered when the maximum suffices and ConsumerFetchSizeTooSmall is reported (nothing skipped) when it does not.",
         "the factor is read from the first unsaturated pair of delays, not assumed; the start Deferred failing before the limit is allowed", "3/C14"),
})

PENDING = {}

def main():
    props = [json.loads(l) for l in open(os.path.join(HERE, "properties.jsonl"))]
    checks = []
    na = []
    for p in props:
        i = p["id"]
        if i in CHECKS and os.path.exists(os.path.join(HERE, "afkverif", "props", i.lower() + ".py")):
            eng, cat, tech, text, note, ref = CHECKS[i]
            checks.append({
                "property_id": i,
                "quick_cmd": "%s -m afkverif.check %s --tier quick" % (PY, i),
                "thorough_cmd": "%s -m afkverif.check %s --tier thorough" % (PY, i),
                "evidence_file": "evidence/%s.json" % i,
                "replay_cmd_template": "%s -m afkverif.check %s --replay {path}" % (PY, i),
                "engine": eng,
                "level_claimed": {"category": cat, "text": text, "design_ref": "DESIGN.md section " + ref},
                "level_note": note,
                "technique": tech,
            })
        else:
            na.append({"property_id": i, "reason": PENDING.get(i, "check not built yet (build in progress; DESIGN.md section 3 describes the planned runtime monitor)")})
    m = {
        "version": 1,
        "setup_cmd": "sh setup.sh",
        "hooks": {"guard": "AFKAK_VERIF",
                  "enable": "no source hooks in /repo: the harness injects reactor, endpoint_factory and retry_policy through KafkaClient's constructor and wraps methods from outside; AFKAK_VERIF only switches harness tracing on",
                  "baseline_off_cmd": "cd /repo && /venv/bin/python -m pytest -ra -q -p no:cacheprovider --timeout=900 --continue-on-collection-errors",
                  "source_commits": [], "add_only": True},
        "engines": [
            {"name": "pure", "path": "afkverif/props", "serves_properties": ["C15", "C18"], "kind_free_text": "direct calls of pure functions under generated inputs with reference oracles"},
            {"name": "brokerclient", "path": "afkverif/engines/bc.py", "serves_properties": ["C06", "C10"], "kind_free_text": "real _KafkaBrokerClient / KafkaBootstrapProtocol over simnet (virtual clock, in-memory transports) against a scripted raw server"},
            {"name": "client-e2e", "path": "afkverif/engines/world.py", "serves_properties": ["C07", "C08", "C11", "C20"], "kind_free_text": "real KafkaClient stack on SimClock + simnet against simkafka (cluster model speaking the independent codec)"},
            {"name": "producer-e2e", "path": "afkverif/engines/prod.py", "serves_properties": ["C01", "C09", "C19"], "kind_free_text": "real Producer on the real client stack against simkafka with seeded fault plans; unique keys/values make histories unambiguous"},
            {"name": "consumer-e2e", "path": "afkverif/engines/cons.py", "serves_properties": ["C02", "C03", "C13", "C14"], "kind_free_text": "real Consumer on the real client stack against a partition log generated as data in simkafka; processor model with sync/async/chained/failing behaviours"},
            {"name": "group-e2e", "path": "afkverif/engines/grp.py", "serves_properties": ["C15", "C16", "C17"], "kind_free_text": "1-4 real ConsumerGroup members, each with its own KafkaClient, against simkafka's group coordinator (join barrier, generations, sync, heartbeats, session expiry, leave)"},
            {"name": "codec", "path": "afkverif/refproto.py", "serves_properties": ["C04", "C05", "C12"], "kind_free_text": "independent strict Kafka wire codec used as differential oracle"},
        ],
        "checks": checks,
        "not_applicable": na,
        "notes": "All checks: cwd=/verif, honour VERIF_SEED / VERIF_TIER, import afkak from /repo's working tree (AFKAK_SRC overrides), exit 0 held / 1 VIOLATION / 2 INCONCLUSIVE. known_findings.json lists fixed and known defects by mechanism key.",
    }
    json.dump(m, open(os.path.join(HERE, "MANIFEST.json"), "w"), indent=1)
    print("checks:", [c["property_id"] for c in checks], "pending:", len(na))

if __name__ == "__main__":
    main()

#!/usr/bin/env python3
"""usage: tools/seedtable.py [--letters EF] [--props C05,C06] -- prints the DESIGN.md table rows (seed | change | caught by) from
seeded/*/meta.json as last written by tools/seedmatrix.py."""
import glob, json, os, sys

want = None  # letters, e.g. EF; optionally restricted to some properties: --props C05,C06
props = None
if "--letters" in sys.argv:
    want = sys.argv[sys.argv.index("--letters") + 1]
if "--props" in sys.argv:
    props = sys.argv[sys.argv.index("--props") + 1].split(",")
root = os.path.join(os.path.dirname(os.path.abspath(__file__)), "..", "seeded")
print("| seed | change (abridged) | caught by: first keys |")
print("|---|---|---|")
for d in sorted(glob.glob(os.path.join(root, "C*-*"))):
    m = json.load(open(os.path.join(d, "meta.json")))
    name = os.path.basename(d)
    if want is not None and name[-1] not in want:
        continue
    if props is not None and name[:3] not in props:
        continue
    s = " ".join(m["summary"].split())
    s = (s[:150] + "…") if len(s) > 150 else s
    cb = []
    for p, r in sorted(m.get("caught_by", {}).items()):
        if r["verdict"] == "caught":
            cb.append("%s: %s" % (p, ", ".join(r["keys"][:2])))
        elif p == m["property"]:
            cb.append("%s: %s" % (p, r["verdict"]))
    print("| %s | %s | %s |" % (os.path.basename(d), s.replace("|", "\\|"), "; ".join(cb)))

#!/usr/bin/env python3
"""Writes seeded/<id>-<v>/meta.json from the sub-agent's notes (and keeps any 'checks' results already recorded)."""
import json, os, sys, glob
for d in sorted(glob.glob('/verif/seeded/*-*')):
    name = os.path.basename(d); pid, v = name.split('-')
    notes = {}
    try:
        notes = json.load(open('/tmp/seedout/%s/notes.json' % pid)).get(v, {})
    except Exception:
        pass
    mp = os.path.join(d, 'meta.json')
    old = json.load(open(mp)) if os.path.exists(mp) else {}
    meta = dict(old)
    meta.update({
        "property": pid, "variant": v,
        "origin": "fresh sub-agent given only the property text and a scratch worktree of /repo (nothing from /verif)",
        "summary": notes.get("summary", old.get("summary", "")),
        "needs_to_manifest": notes.get("needs_to_manifest", old.get("needs_to_manifest", "")),
        "clause_broken": notes.get("clause_broken", old.get("clause_broken", "")),
        "files": notes.get("files", old.get("files", [])),
        "confirmed": {"applies_to": "/repo HEAD at confirmation time (scratch worktree)", "existing_suite": open(os.path.join(d, 'tests.txt')).read().strip() if os.path.exists(os.path.join(d, 'tests.txt')) else "",
                      "demo": "demo.py exits 0 on the unchanged tree and non-zero with patch.diff applied (run from the worktree root: /venv/bin/python demo.py)",
                      "how": "tools/verify_seed.sh"},
    })
    json.dump(meta, open(mp, 'w'), indent=1)
print("ok")

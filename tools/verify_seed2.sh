#!/bin/sh
# usage: tools/verify_seed2.sh <ID>   -- round 2: confirms ${SRC:-/tmp/seedout2}/<ID>/{A,B}.diff independently and keeps them as
# seeded/<ID>-C and seeded/<ID>-D (patch.diff, demo.py, tests.txt, meta.json)
id="$1"; src=${SRC:-/tmp/seedout2}/$id
for pair in ${PAIRS:-A:C B:D}; do
  v=${pair%%:*}; w=${pair##*:}
  wt=/tmp/afkverif-vs2.$$.$v
  git -C /repo worktree add -q --detach "$wt" HEAD || exit 3
  cd "$wt"
  /venv/bin/python "$src/${v}_demo.py" >/dev/null 2>&1; clean_rc=$?
  if ! git apply "$src/$v.diff" 2>/dev/null; then echo "$id $v: PATCH-DOES-NOT-APPLY"; cd /; git -C /repo worktree remove --force "$wt"; continue; fi
  tests=$(/venv/bin/python -m pytest -q -p no:cacheprovider --timeout=900 afkak/test 2>&1 | tail -1)
  /venv/bin/python "$src/${v}_demo.py" >/dev/null 2>&1; mut_rc=$?
  git diff > /tmp/afkverif-vs2.$$.diff
  echo "$id $v->$w: demo clean_rc=$clean_rc mutated_rc=$mut_rc tests: $tests"
  cd /; git -C /repo worktree remove --force "$wt"
  if [ "$clean_rc" = 0 ] && [ "$mut_rc" != 0 ] && echo "$tests" | grep -q "1 failed, 310 passed"; then
    d=/verif/seeded/$id-$w; mkdir -p "$d"; cp /tmp/afkverif-vs2.$$.diff "$d/patch.diff"; cp "$src/${v}_demo.py" "$d/demo.py"
    echo "$tests" > "$d/tests.txt"
    /usr/bin/python3 - "$id" "$v" "$w" <<'PY'
import json, sys, os
pid, v, w = sys.argv[1:4]
notes = json.load(open('%s/%s/notes.json' % (os.environ.get('SRC', '/tmp/seedout2'), pid))).get(v, {})
d = '/verif/seeded/%s-%s' % (pid, w)
meta = {"property": pid, "variant": w, "round": int(__import__("os").environ.get("ROUND", "2")),
        "origin": "fresh sub-agent (later round) given only the property text, a scratch worktree of the repaired /repo head and one-line summaries of the earlier seeded changes for the property, to avoid them (nothing from /verif)",
        "summary": notes.get("summary", ""), "needs_to_manifest": notes.get("needs_to_manifest", ""),
        "clause_broken": notes.get("clause_broken", ""), "files": notes.get("files", []),
        "confirmed": {"applies_to": "/repo HEAD at confirmation time (scratch worktree)",
                      "existing_suite": open(os.path.join(d, 'tests.txt')).read().strip(),
                      "demo": "demo.py exits 0 on the unchanged tree and non-zero with patch.diff applied (run from the worktree root: /venv/bin/python demo.py)",
                      "how": "tools/verify_seed2.sh"}}
json.dump(meta, open(os.path.join(d, 'meta.json'), 'w'), indent=1)
PY
  fi
  rm -f /tmp/afkverif-vs2.$$.diff
done

#!/bin/sh
# usage: tools/verify_seed.sh <ID> <A|B>   -- independent confirmation of a sub-agent's seeded change.
# 1 patch applies to a scratch worktree of /repo HEAD  2 suite result equals baseline  3 demo passes without / fails with
id="$1"; v="$2"; src=/tmp/seedout/$id
wt=/tmp/afkverif-vs.$$
git -C /repo worktree add -q --detach "$wt" HEAD || exit 3
cd "$wt"
/venv/bin/python "$src/${v}_demo.py" >/dev/null 2>&1; clean_rc=$?
if ! git apply "$src/$v.diff" 2>/dev/null; then git apply -3 "$src/$v.diff" 2>/dev/null || { echo "$id $v: PATCH-DOES-NOT-APPLY"; cd /; git -C /repo worktree remove --force "$wt"; exit 4; }; fi
tests=$(/venv/bin/python -m pytest -q -p no:cacheprovider --timeout=900 afkak/test 2>&1 | tail -1)
/venv/bin/python "$src/${v}_demo.py" >/dev/null 2>&1; mut_rc=$?
git diff > /tmp/afkverif-vs.$$.diff
echo "$id $v: demo clean_rc=$clean_rc mutated_rc=$mut_rc tests: $tests"
cd /; git -C /repo worktree remove --force "$wt"
if [ "$clean_rc" = 0 ] && [ "$mut_rc" != 0 ]; then
  d=/verif/seeded/$id-$v; mkdir -p "$d"; cp /tmp/afkverif-vs.$$.diff "$d/patch.diff"; cp "$src/${v}_demo.py" "$d/demo.py"
  echo "$tests" > "$d/tests.txt"
fi
rm -f /tmp/afkverif-vs.$$.diff

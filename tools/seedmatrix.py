#!/usr/bin/env python3
"""Run every seeded change in /verif/seeded against the check(s) of its property on a scratch worktree of /repo's
HEAD and record which violation keys fire in seeded/<id>/meta.json ("caught_by").  Development tool.
usage: tools/seedmatrix.py [ID ...]      env TIER=quick|thorough; VERIF_SEED=n (with NOWRITE=1: print only, used to see
whether detection depends on the draw)"""
import json, os, subprocess, sys, tempfile
HERE = os.path.dirname(os.path.dirname(os.path.abspath(__file__)))
EXTRA = {"C15-B": ["C15", "C16"], "C12-B": ["C12", "C14"],
         # changes whose observable effect falls under another property's sentence (see DESIGN.md 9.5, rounds 6/7)
         "C06-G": ["C06", "C10"], "C07-H": ["C07", "C08"], "C07-G": ["C07", "C08"], "C12-G": ["C12", "C02"],
         "C02-G": ["C02", "C14"], "C17-H": ["C17", "C13"], "C11-H": ["C11", "C10"], "C16-G": ["C16", "C17"], "C03-H": ["C03", "C13"],
         "C02-J": ["C02", "C05"], "C08-J": ["C08", "C17"], "C11-J": ["C11", "C10"], "C14-I": ["C14", "C02"],
         "C16-J": ["C16", "C13"], "C16-I": ["C16", "C17"], "C06-J": ["C06", "C11"], "C19-J": ["C19", "C13"],
         "C07-I": ["C07", "C08"], "C15-I": ["C15", "C17"],
         "C02-K": ["C02", "C13"], "C03-L": ["C03", "C13"], "C19-L": ["C19", "C10"], "C07-K": ["C07", "C04"],
         "C07-L": ["C07", "C08"]}
ids = sys.argv[1:] or sorted(os.listdir(os.path.join(HERE, "seeded")))
head = subprocess.check_output(["git", "-C", "/repo", "rev-parse", "--short", "HEAD"]).decode().strip()
rows = []
for sid in ids:
    d = os.path.join(HERE, "seeded", sid)
    if not os.path.isfile(os.path.join(d, "patch.diff")):
        continue
    meta = json.load(open(os.path.join(d, "meta.json")))
    props = EXTRA.get(sid, [meta["property"]])
    wt = tempfile.mkdtemp(prefix="afkverif-sm.", dir="/tmp")
    os.rmdir(wt)
    subprocess.check_call(["git", "-C", "/repo", "worktree", "add", "-q", "--detach", wt, "HEAD"])
    try:
        ok = subprocess.call(["git", "-C", wt, "apply", os.path.join(d, "patch.diff")], stderr=subprocess.DEVNULL) == 0
        if not ok:
            ok = subprocess.call(["git", "-C", wt, "apply", "-3", os.path.join(d, "patch.diff")],
                                 stdout=subprocess.DEVNULL, stderr=subprocess.DEVNULL) == 0
        if not ok:
            meta["caught_by"] = {"_error": "patch does not apply to /repo %s" % head}
            rows.append((sid, "PATCH-DOES-NOT-APPLY"))
        else:
            caught = {}
            for p in props:
                env = dict(os.environ, AFKAK_SRC=wt)
                r = subprocess.run(["/venv/bin/python", "-m", "afkverif.check", p, "--tier", os.environ.get("TIER", "quick"),
                                    "--no-evidence"], cwd=HERE, env=env, stdout=subprocess.PIPE, stderr=subprocess.STDOUT)
                out = r.stdout.decode()
                keys = [l.strip()[4:].split(" cases=")[0] for l in out.split("\n") if l.strip().startswith("key=")]
                caught[p] = dict(exit=r.returncode, verdict={0: "missed", 1: "caught", 2: "inconclusive"}.get(r.returncode, "?"),
                                 keys=keys[:8])
            meta["caught_by"] = caught
            meta["caught_checked_at"] = dict(repo_head=head, tier=os.environ.get("TIER", "quick"))
            rows.append((sid, "; ".join("%s:%s" % (p, c["verdict"]) for p, c in caught.items())))
        if not os.environ.get("NOWRITE"):
            json.dump(meta, open(os.path.join(d, "meta.json"), "w"), indent=1)
        print("%-8s %s" % rows[-1], flush=True)
    finally:
        subprocess.call(["git", "-C", "/repo", "worktree", "remove", "--force", wt])

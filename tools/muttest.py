#!/usr/bin/env python3
"""Self-test: apply hand-written mutants (selftest/mutants.json) to a scratch worktree of /repo HEAD and run the
named checks against it.  Development tool, not a registered check.
usage: tools/muttest.py [NAME ...]   (no name = all);  env TIER=quick|thorough, SUITE=1 also runs the repo's tests"""
import json, os, subprocess, sys, tempfile
HERE = os.path.dirname(os.path.dirname(os.path.abspath(__file__)))
muts = json.load(open(os.path.join(HERE, "selftest", "mutants.json")))
names = sys.argv[1:] or [m["name"] for m in muts]
summary = []
for m in muts:
    if m["name"] not in names:
        continue
    wt = tempfile.mkdtemp(prefix="afkverif-mut.", dir="/tmp")
    os.rmdir(wt)
    subprocess.check_call(["git", "-C", "/repo", "worktree", "add", "-q", "--detach", wt, "HEAD"])
    try:
        p = os.path.join(wt, m["file"])
        s = open(p).read()
        if s.count(m["old"]) != 1:
            print("%-40s OLD-TEXT-NOT-UNIQUE (%d)" % (m["name"], s.count(m["old"])))
            summary.append((m["name"], "stale"))
            continue
        open(p, "w").write(s.replace(m["old"], m["new"]))
        suite = ""
        if os.environ.get("SUITE"):
            r = subprocess.run(["/venv/bin/python", "-m", "pytest", "-q", "-p", "no:cacheprovider", "afkak/test"], cwd=wt,
                               stdout=subprocess.PIPE, stderr=subprocess.STDOUT)
            suite = r.stdout.decode().strip().split("\n")[-1]
        verdicts = []
        for prop in m["checks"]:
            env = dict(os.environ, AFKAK_SRC=wt)
            r = subprocess.run(["/venv/bin/python", "-m", "afkverif.check", prop, "--tier", os.environ.get("TIER", "quick"),
                                "--no-evidence"], cwd=HERE, env=env, stdout=subprocess.PIPE, stderr=subprocess.STDOUT)
            out = r.stdout.decode()
            keys = [l.strip() for l in out.split("\n") if l.strip().startswith("key=")]
            verdicts.append("%s:%s%s" % (prop, {0: "MISSED", 1: "caught", 2: "inconclusive"}.get(r.returncode, r.returncode),
                                         (" [" + keys[0][:90] + "]") if keys else ""))
        print("%-40s %s %s" % (m["name"], "; ".join(verdicts), suite))
        summary.append((m["name"], verdicts))
    finally:
        subprocess.call(["git", "-C", "/repo", "worktree", "remove", "--force", wt])
